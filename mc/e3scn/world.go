// Package e3scn holds the scenario bodies of C12 and C05: a real driver, a
// real serial engine, a real direct connection and a minimal GPU responder.
// The same bodies are built twice: instrumented (controlled scheduler, tag e3)
// and uninstrumented with -race (free running).
package e3scn

import (
	"bytes"
	"encoding/binary"
	"fmt"
	"sort"
	"strings"
	gosync "sync"

	"github.com/sarchlab/akita/v4/mem/mem"
	"github.com/sarchlab/akita/v4/mem/vm"
	"github.com/sarchlab/akita/v4/sim"
	"github.com/sarchlab/akita/v4/sim/directconnection"
	"github.com/sarchlab/akita/v4/tracing"
	"github.com/sarchlab/mgpusim/v4/amd/driver"
	"github.com/sarchlab/mgpusim/v4/amd/insts"
	"github.com/sarchlab/mgpusim/v4/amd/kernels"
	"github.com/sarchlab/mgpusim/v4/amd/protocol"
)

// RT is what a scenario needs from its runtime (controlled or free).
type RT interface {
	// Go starts an application thread.
	Go(name string, f func())
	// Wait waits for every application thread started with Go.
	Wait()
	// Fail records a violation (the first one is kept).
	Fail(sig, format string, a ...any)
	// Logf adds a line to the recorded schedule.
	Logf(format string, a ...any)
	// Outcome records the observable outcome of the execution.
	Outcome(s string)
	// Quiesce waits until the driver and engine goroutines have nothing left
	// to do (controlled runtime only; a no-op when free running).
	Quiesce()
	// OnDeadlock registers the classifier called (with every thread parked)
	// when the controlled scheduler finds a deadlock.
	OnDeadlock(f func(blocked []Blocked) string)
}

// Blocked describes an unfinished thread at a deadlock.
type Blocked struct {
	ID     int
	Name   string
	Daemon bool
	What   string
	Stack  []string
	// Finished threads are listed too (Finished=true).
	Finished         bool
	LastPreempt      string
	LastPreemptStack []string
}

// log2Page is the page size of the scenarios: 16 MB pages keep the driver's
// free-page lists (one entry per page of 4 GB host memory) short.
const log2Page = 24

// Opts configures the world.
type Opts struct {
	Magic      bool // magic (global storage) memory copy middleware
	H2DCycles  int
	D2HCycles  int
	RspLatency int // cycles the responder takes to answer
	// TailTicks: the responder keeps ticking for this many cycles after its
	// last activity (GPU-side components winding down after a command).
	TailTicks int
	// GPUs > 1: further responders are registered as GPU 2..n (buffers and
	// kernels stay on GPU 1; the others only see the flush requests the driver
	// sends to every GPU). FarFlushLatency is their flush latency: with a value
	// above RspLatency the last flush acknowledgement of a copy arrives AFTER
	// the copy's data, so the command completes in the flush-return path.
	GPUs            int
	FarFlushLatency int
}

// CmdEvent is one driver-command trace event.
type CmdEvent struct {
	Start bool
	ID    string
	What  string
	Time  sim.VTimeInSec
}

// World is one fresh simulated system.
type World struct {
	RT      RT
	Opts    Opts
	Engine  *sim.SerialEngine
	Driver  *driver.Driver
	GPU     *Responder
	Far     []*Responder
	Storage *mem.Storage
	PT      vm.PageTable
	Conn    *directconnection.Comp

	mu       gosync.Mutex // protects log and draining (never held across a shim operation)
	log      []CmdEvent
	draining map[string]*driver.CommandQueue
}

type cmdHook struct{ w *World }

func (h cmdHook) Func(ctx sim.HookCtx) {
	task, ok := ctx.Item.(tracing.Task)
	if !ok {
		return
	}
	switch ctx.Pos {
	case tracing.HookPosTaskStart:
		if task.Kind != "Driver Command" {
			return
		}
		now := h.w.Engine.CurrentTime()
		h.w.mu.Lock()
		h.w.log = append(h.w.log, CmdEvent{Start: true, ID: task.ID, What: task.What, Time: now})
		h.w.mu.Unlock()
	case tracing.HookPosTaskEnd:
		now := h.w.Engine.CurrentTime()
		h.w.mu.Lock()
		known := false
		for _, e := range h.w.log {
			if e.Start && e.ID == task.ID {
				known = true
			}
		}
		if known {
			h.w.log = append(h.w.log, CmdEvent{ID: task.ID, Time: now})
		}
		h.w.mu.Unlock()
	}
}

// NewWorld builds driver + engine + connection + responder and starts the driver.
func NewWorld(rt RT, o Opts) *World {
	resetGlobals()
	w := &World{RT: rt, Opts: o, draining: map[string]*driver.CommandQueue{}}
	w.Engine = sim.NewSerialEngine()
	w.PT = vm.NewPageTable(log2Page)
	w.Storage = mem.NewStorage(4*mem.GB + 256*mem.MB)
	b := driver.MakeBuilder().WithEngine(w.Engine).WithFreq(1 * sim.GHz).WithLog2PageSize(log2Page).
		WithPageTable(w.PT).WithGlobalStorage(w.Storage).WithH2DCycles(o.H2DCycles).WithD2HCycles(o.D2HCycles)
	if o.Magic {
		b = b.WithMagicMemoryCopyMiddleware()
	}
	w.Driver = b.Build("Driver")
	w.Driver.AcceptHook(cmdHook{w})
	w.GPU = newResponder(w, o.RspLatency)
	w.Driver.RegisterGPU(w.GPU.port, driver.DeviceProperties{CUCount: 4, DRAMSize: 128 * mem.MB})
	w.Conn = directconnection.MakeBuilder().WithEngine(w.Engine).WithFreq(1 * sim.GHz).Build("Conn")
	w.Conn.PlugIn(w.Driver.GetPortByName("GPU"))
	w.Conn.PlugIn(w.GPU.port)
	for g := 2; g <= o.GPUs; g++ {
		f := newNamedResponder(w, fmt.Sprintf("GPU%d", g), o.FarFlushLatency)
		w.Driver.RegisterGPU(f.port, driver.DeviceProperties{CUCount: 4, DRAMSize: 128 * mem.MB})
		w.Conn.PlugIn(f.port)
		w.Far = append(w.Far, f)
	}
	rt.OnDeadlock(w.classifyDeadlock)
	w.Driver.Run()
	return w
}

// Log returns a copy of the command trace.
func (w *World) Log() []CmdEvent {
	w.mu.Lock()
	defer w.mu.Unlock()
	return append([]CmdEvent(nil), w.log...)
}

// Drain is DrainCommandQueue plus the oracle "when it returns the queue is
// empty and every command submitted to it earlier has completed".
func (w *World) Drain(thread string, q *driver.CommandQueue, submitted ...string) {
	w.mu.Lock()
	w.draining[thread] = q
	w.mu.Unlock()
	w.Driver.DrainCommandQueue(q)
	w.mu.Lock()
	delete(w.draining, thread)
	w.mu.Unlock()
	if n := q.NumCommand(); n != 0 {
		w.RT.Fail("drain-returned-with-commands-in-queue", "%s: DrainCommandQueue returned but the queue still holds %d command(s)", thread, n)
	}
}

// DrainShared is Drain for a queue that other threads enqueue on at the same time: the queue need not be empty
// when the call returns (commands submitted by others after the moment of emptiness may be there). That the
// commands THIS thread submitted before the call have completed is judged by their effects (the caller compares
// what its device-to-host copy returned): the driver's completion hook fires after the dequeue that releases the
// waiter, so the command trace cannot be used for this.
func (w *World) DrainShared(thread string, q *driver.CommandQueue, submitted ...string) {
	w.mu.Lock()
	w.draining[thread] = q
	w.mu.Unlock()
	w.Driver.DrainCommandQueue(q)
	w.mu.Lock()
	delete(w.draining, thread)
	w.mu.Unlock()
}

// CheckOrder checks "one at a time, in submission order" for the commands of
// one queue (ids in submission order) against the command trace.
func (w *World) CheckOrder(queue string, ids []string) {
	if w.Opts.Magic {
		return
	}
	log := w.Log()
	pos := func(id string, start bool) int {
		for i, e := range log {
			if e.ID == id && e.Start == start {
				return i
			}
		}
		return -1
	}
	for i, id := range ids {
		s, e := pos(id, true), pos(id, false)
		if i == len(ids)-1 && e < 0 {
			e = len(log) // completion is traced after the dequeue that releases the waiter
		}
		if s < 0 || e < 0 || e < s {
			w.RT.Fail("command-not-started-or-not-completed", "queue %s: command %s start=%d end=%d in trace %s", queue, id, s, e, FormatLog(log))
			return
		}
		if i > 0 {
			if pe := pos(ids[i-1], false); pe > s {
				w.RT.Fail("commands-overlap-or-out-of-order", "queue %s: command %s started before its predecessor %s completed; trace %s", queue, id, ids[i-1], FormatLog(log))
				return
			}
		}
	}
}

// FormatLog renders a command trace.
func FormatLog(log []CmdEvent) string {
	var b strings.Builder
	for _, e := range log {
		k := "end"
		if e.Start {
			k = "start"
		}
		fmt.Fprintf(&b, "%s(%s)@%.0f ", k, e.ID, float64(e.Time)*1e9)
	}
	return b.String()
}

// Times renders per-command start/end times in a canonical form: generated ids
// are replaced by the order of first appearance.
func (w *World) Times() string {
	log := w.Log()
	names := map[string]string{}
	var b strings.Builder
	for _, e := range log {
		n, ok := names[e.ID]
		if !ok {
			n = fmt.Sprintf("c%d", len(names))
			names[e.ID] = n
		}
		k := "e"
		if e.Start {
			k = "s"
		}
		fmt.Fprintf(&b, "%s%s@%d ", k, n, int64(float64(e.Time)*1e9+0.5))
	}
	return b.String()
}

// Durations renders end-start of every completed command (canonical ids).
func (w *World) Durations() string {
	log := w.Log()
	names := map[string]string{}
	start := map[string]sim.VTimeInSec{}
	var b strings.Builder
	for _, e := range log {
		n, ok := names[e.ID]
		if !ok {
			n = fmt.Sprintf("c%d", len(names))
			names[e.ID] = n
		}
		if e.Start {
			start[e.ID] = e.Time
		} else {
			fmt.Fprintf(&b, "%s=%d ", n, int64(float64(e.Time-start[e.ID])*1e9+0.5))
		}
	}
	return b.String()
}

// classifyDeadlock refines the signature of a deadlock. It runs while every
// thread is parked.
func (w *World) classifyDeadlock(blocked []Blocked) string {
	var apps []string
	engineAlive := false
	enginePre := "-"
	for _, b := range blocked {
		if b.Name == "d.runEngine" {
			if !b.Finished {
				engineAlive = true
			}
			enginePre = b.LastPreempt // of the most recent engine goroutine
		}
	}
	for _, b := range blocked {
		if b.Daemon || b.Finished {
			continue
		}
		where := b.What
		inDrain := false
		for _, f := range b.Stack {
			if strings.Contains(f, "DrainCommandQueue") {
				inDrain = true
			}
		}
		if inDrain && b.What == "chan recv" {
			// which queue(s) are being waited on: the one recorded by World.Drain,
			// else every queue that has a subscribed listener
			var qs []*driver.CommandQueue
			if q := w.draining[b.Name]; q != nil {
				qs = append(qs, q)
			} else {
				for _, q := range verifQueues(w.Driver) {
					if verifNumListeners(q) > 0 {
						qs = append(qs, q)
					}
				}
			}
			where = "DrainCommandQueue/wait"
			for _, q := range qs {
				var k string
				switch {
				case verifNumCommands(q) == 0:
					// the queue is empty, the last notification is gone, nobody will notify again
					// (the window is named by where the waiting thread was last preempted)
					// (only if that happened inside DrainCommandQueue; "-" otherwise)
					pre := "-"
					for _, f := range b.LastPreemptStack {
						if strings.Contains(f, "DrainCommandQueue") {
							pre = b.LastPreempt
						}
					}
					k = "DrainCommandQueue/notify-before-wait/waiter-preempted-in=" + pre
				case !engineAlive && verifPending(w.Engine) > 0:
					// commands and a scheduled tick, but no engine goroutine and nobody left to start one
					k = "DrainCommandQueue/engine-exit-races-with-enqueue/engine-preempted-in=" + enginePre
				case !engineAlive:
					k = "DrainCommandQueue/command-left-in-queue-engine-idle"
				default:
					k = "DrainCommandQueue/command-left-in-queue-engine-blocked"
				}
				apps = append(apps, k)
				where = ""
			}
			if where == "" {
				continue
			}
		} else if len(b.Stack) > 0 {
			top := b.Stack[0]
			if i := strings.LastIndex(top, ":"); i > 0 {
				top = top[:i]
			}
			where = b.What + "@" + top
			if inDrain {
				where = "DrainCommandQueue/" + where
			}
		}
		if b.Name == "main" && b.What == "WaitGroup.Wait" {
			continue // the main thread only waits for the application threads
		}
		apps = append(apps, where)
	}
	sort.Strings(apps)
	apps = uniq(apps)
	return strings.Join(apps, "+")
}

func uniq(s []string) []string {
	var out []string
	for i, x := range s {
		if i == 0 || x != s[i-1] {
			out = append(out, x)
		}
	}
	return out
}

// ---------------------------------------------------------------------------
// GPU responder

// KernelArgs are the arguments of the fake "add" kernel.
type KernelArgs struct {
	Buf driver.Ptr
	N   uint32
	Add uint32
}

// AddKernel is the code object of the fake kernel: buf[i] += add for i < n.
var AddKernel = &insts.KernelCodeObject{
	KernelCodeObjectMeta: &insts.KernelCodeObjectMeta{KernargSegmentByteSize: 16},
	Data:                 []byte{0xde, 0xad, 0xbe, 0xef, 1, 2, 3, 4},
}

type pendingRsp struct {
	ready int
	msg   sim.Msg
}

// Responder is the minimal GPU: it answers the driver's requests after a
// fixed latency and applies their memory effects to the storage.
type Responder struct {
	*sim.TickingComponent
	w       *World
	port    sim.Port
	lat     int
	tail    int
	idle    int
	cycle   int
	pending []pendingRsp
	// Requests seen, in arrival order (for the oracle)
	Seen []string
}

func newResponder(w *World, lat int) *Responder { return newNamedResponder(w, "GPU", lat) }

func newNamedResponder(w *World, name string, lat int) *Responder {
	r := &Responder{w: w, lat: lat, tail: w.Opts.TailTicks, idle: 1 << 30}
	r.TickingComponent = sim.NewTickingComponent(name, w.Engine, 1*sim.GHz, r)
	r.port = sim.NewPort(r, 8, 8, name+".ToDriver")
	r.AddPort("ToDriver", r.port)
	return r
}

// Tick handles at most one incoming request and sends due responses.
func (r *Responder) Tick() bool {
	progress := false
	r.cycle++
	if len(r.pending) > 0 && r.pending[0].ready <= r.cycle {
		if err := r.port.Send(r.pending[0].msg); err == nil {
			r.pending = r.pending[1:]
		}
		progress = true
	}
	if m := r.port.RetrieveIncoming(); m != nil {
		r.handle(m)
		progress = true
	}
	if progress || len(r.pending) > 0 {
		r.idle = 0
		return true
	}
	r.idle++
	return r.idle <= r.tail
}

func (r *Responder) translate(pid vm.PID, vAddr uint64) (uint64, bool) {
	page, ok := r.w.PT.Find(pid, vAddr)
	if !ok {
		return 0, false
	}
	return page.PAddr + (vAddr - page.VAddr), true
}

func (r *Responder) handle(m sim.Msg) {
	src, dst := r.port.AsRemote(), m.Meta().Src
	gen := func() sim.Msg {
		return sim.GeneralRspBuilder{}.WithSrc(src).WithDst(dst).WithOriginalReq(m).Build()
	}
	var rsp sim.Msg
	switch req := m.(type) {
	case *protocol.MemCopyH2DReq:
		r.Seen = append(r.Seen, "H2D")
		if err := r.w.Storage.Write(req.DstAddress, req.SrcBuffer); err != nil {
			panic(err)
		}
		rsp = gen()
	case *protocol.MemCopyD2HReq:
		r.Seen = append(r.Seen, "D2H")
		data, err := r.w.Storage.Read(req.SrcAddress, uint64(len(req.DstBuffer)))
		if err != nil {
			panic(err)
		}
		copy(req.DstBuffer, data)
		rsp = gen()
	case *protocol.FlushReq:
		r.Seen = append(r.Seen, "Flush")
		rsp = gen()
	case *protocol.LaunchKernelReq:
		r.Seen = append(r.Seen, "Kernel")
		r.runKernel(req)
		rsp = protocol.NewLaunchKernelRsp(src, dst, req.ID)
	default:
		panic(fmt.Sprintf("responder: unexpected request %T", m))
	}
	r.pending = append(r.pending, pendingRsp{ready: r.cycle + r.lat, msg: rsp})
}

// runKernel executes the fake kernel and checks that it observes the copies
// enqueued before it (code object, arguments, packet).
func (r *Responder) runKernel(req *protocol.LaunchKernelReq) {
	fail := func(sig, f string, a ...any) { r.w.RT.Fail(sig, f, a...) }
	coAddr, ok := r.translate(req.PID, req.Packet.KernelObject)
	if !ok {
		fail("kernel-sees-unmapped-code-object", "code object address %#x not mapped for pid %d", req.Packet.KernelObject, req.PID)
		return
	}
	code, _ := r.w.Storage.Read(coAddr, uint64(len(req.CodeObject.Data)))
	if !bytes.Equal(code, req.CodeObject.Data) {
		fail("kernel-does-not-see-earlier-copy/code-object", "device code bytes %x, expected %x: the kernel started before the preceding H2D copy took effect", code, req.CodeObject.Data)
	}
	argAddr, ok := r.translate(req.PID, req.Packet.KernargAddress)
	if !ok {
		fail("kernel-sees-unmapped-kernarg", "kernarg address %#x not mapped", req.Packet.KernargAddress)
		return
	}
	raw, _ := r.w.Storage.Read(argAddr, 16)
	var args KernelArgs
	if err := binary.Read(bytes.NewReader(raw), binary.LittleEndian, &args); err != nil {
		panic(err)
	}
	if args.N == 0 || args.N > 64 {
		fail("kernel-does-not-see-earlier-copy/kernarg", "kernel arguments read from device memory are %+v: the kernel started before the preceding H2D copy took effect", args)
		return
	}
	for i := uint32(0); i < args.N; i++ {
		// a unified multi-GPU launch gives every GPU the whole grid and a filter
		// that selects its work-groups: work-item i belongs to work-group i / WG size
		if req.WGFilter != nil {
			wgs := uint32(req.Packet.WorkgroupSizeX)
			if wgs == 0 {
				wgs = 1
			}
			if !req.WGFilter(req.Packet, &kernels.WorkGroup{IDX: int(i / wgs)}) {
				continue
			}
		}
		p, ok := r.translate(req.PID, uint64(args.Buf)+uint64(i))
		if !ok {
			fail("kernel-sees-unmapped-buffer", "buffer address %#x not mapped", uint64(args.Buf)+uint64(i))
			return
		}
		b, _ := r.w.Storage.Read(p, 1)
		b[0] += byte(args.Add)
		r.w.Storage.Write(p, b)
	}
}

// DeviceBytes reads n bytes at a virtual address of a context straight from
// the storage (not through the driver).
func (w *World) DeviceBytes(pid vm.PID, p driver.Ptr, n int) []byte {
	out := make([]byte, n)
	for i := 0; i < n; i++ {
		page, ok := w.PT.Find(pid, uint64(p)+uint64(i))
		if !ok {
			return nil
		}
		b, _ := w.Storage.Read(page.PAddr+(uint64(p)+uint64(i)-page.VAddr), 1)
		out[i] = b[0]
	}
	return out
}
