//go:build e3

package e3scn

import (
	"fmt"
	"os"
	"sync"

	"github.com/sarchlab/akita/v4/sim"
	"github.com/sarchlab/akita/v4/simulation"
	"github.com/sarchlab/mgpusim/v4/amd/driver"
	"github.com/sarchlab/mgpusim/v4/amd/insts"
	"github.com/sarchlab/mgpusim/v4/amd/samples/runner/emusystem"
)

// The real 1-GPU emulation platform (runner/emusystem: driver with the magic
// memory-copy middleware, command processor, DMA engine, ideal memory
// controller, 64 emulated compute units) under the controlled scheduler, with
// the programs of amd/tests/deterministic (memcopy, empty kernel).

var emptyKernelOnce sync.Once
var emptyKernel *insts.KernelCodeObject

// emptyKernelPath is where the empty kernel of tests/deterministic lives
// (run.sh exports the repository directory it builds from).
func emptyKernelPath() string {
	repo := os.Getenv("VERIF_REPO_DIR")
	if repo == "" {
		repo = "/repo"
	}
	return repo + "/amd/tests/deterministic/empty_kernel/kernels.hsaco"
}

// EmuPlatform: program "memcopy" (MemCopyH2D; MemCopyD2H) or "empty-kernel"
// (LaunchKernel of the empty kernel, then MemCopyH2D; MemCopyD2H).
func EmuPlatform(program string) Scenario {
	return Scenario{Name: "emu-1gpu-" + program, Threads: 1, Main: func(rt RT, o Opts) {
		resetGlobals()
		engine := sim.NewSerialEngine()
		s := simulation.VerifBare(engine)
		emusystem.MakeBuilder().WithSimulation(s).WithNumGPUs(1).WithLog2PageSize(log2Page).Build()
		d := s.GetComponentByName("Driver").(*driver.Driver)
		w := &World{RT: rt, Engine: engine, Driver: d, draining: map[string]*driver.CommandQueue{}}
		d.AcceptHook(cmdHook{w})
		rt.OnDeadlock(w.classifyDeadlock)
		d.Run()
		ctx := d.Init()
		d.SelectGPU(ctx, 1)
		if program == "empty-kernel" {
			emptyKernelOnce.Do(func() {
				emptyKernel = insts.LoadKernelCodeObjectFromFS(emptyKernelPath(), "")
			})
			type args struct{ X, Y, Z int64 }
			d.LaunchKernel(ctx, emptyKernel, [3]uint32{64, 1, 1}, [3]uint16{64, 1, 1}, &args{})
		}
		data := []byte{3, 1, 4, 1, 5, 9, 2, 6}
		out := make([]byte, 8)
		buf := d.AllocateMemory(ctx, 8)
		d.MemCopyH2D(ctx, buf, data)
		d.MemCopyD2H(ctx, out, buf)
		if fmt.Sprint(out) != fmt.Sprint(data) {
			rt.Fail("wrong-data/emu-memcopy", "read back %v, expected %v", out, data)
		}
		rt.Quiesce()
		tEnd := engine.CurrentTime()
		rt.Outcome(fmt.Sprintf("bytes: host=%v; durations: %s; times: %s; T_end(engine idle)=%d",
			out, w.Durations(), w.Times(), int64(float64(tEnd)*1e9+0.5)))
	}}
}
