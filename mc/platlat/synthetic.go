package platlat

import (
	"log"

	"verif/mc/cuworld"

	"github.com/sarchlab/mgpusim/v4/amd/driver"
)

// reupload is a synthetic host program (not a shipped workload; C18a only):
// the placement of data and work is the only thing that differs between its
// GPU sets. A buffer X lives on the FIRST GPU of the set, the copy kernels and
// the buffer Y on the LAST one (one GPU: everything together; unified device:
// wherever the driver puts the pages and work-groups):
//
//	X <- A (host to device);  Y <- X (device copy kernel);  X <- B;  Y <- X;  read Y
//
// The second kernel must see the second upload, wherever X, Y and the kernel
// are: a copy of X's lines left in another GPU's caches by the first kernel
// must not survive the host's overwrite.
type reupload struct {
	driver  *driver.Driver
	context *driver.Context
	gpus    []int
	Bytes   int
	useUM   bool
	Rounds  int
	// Redistribute: after the first round both buffers are spread over the GPUs of the set with Driver.Distribute
	// (a buffer that has already been copied to and from is moved; the following upload must reach its new pages)
	Redistribute bool

	out  []uint32
	want []uint32
}

func newReupload(d *driver.Driver, p map[string]int) *reupload {
	b := &reupload{driver: d, Bytes: def(p, "bytes", 16384), Rounds: def(p, "rounds", 2), Redistribute: def(p, "redistribute", 0) != 0}
	b.context = d.Init()
	return b
}

func (b *reupload) SelectGPU(gpus []int) { b.gpus = gpus }
func (b *reupload) SetUnifiedMemory()    { b.useUM = true }

func (b *reupload) alloc(gpu int) driver.Ptr {
	b.driver.SelectGPU(b.context, gpu)
	if b.useUM {
		return b.driver.AllocateUnifiedMemory(b.context, uint64(b.Bytes))
	}
	return b.driver.AllocateMemory(b.context, uint64(b.Bytes))
}

func (b *reupload) Run() {
	owner, worker := b.gpus[0], b.gpus[len(b.gpus)-1]
	x := b.alloc(owner)
	y := b.alloc(worker) // the context stays on the worker: the copy kernels run there
	n := b.Bytes / 4
	for r := 0; r < b.Rounds; r++ {
		data := make([]uint32, n)
		for i := range data {
			data[i] = uint32(i)*2654435761 + uint32(r+1)*1000003
		}
		b.want = data
		b.driver.MemCopyH2D(b.context, x, data)
		b.driver.MemCopyD2D(b.context, y, x, b.Bytes)
		if b.Redistribute && r == 0 && len(b.gpus) > 1 {
			probe := make([]uint32, n)
			b.driver.MemCopyD2H(b.context, probe, y) // the buffers have been copied in both directions
			b.driver.Distribute(b.context, x, uint64(b.Bytes), b.gpus)
			b.driver.Distribute(b.context, y, uint64(b.Bytes), b.gpus)
		}
	}
	b.out = make([]uint32, n)
	b.driver.MemCopyD2H(b.context, b.out, y)
}

func (b *reupload) Verify() {
	for i := range b.out {
		if b.out[i] != b.want[i] {
			log.Panicf("Mismatch at %d, expected %d (the last upload), but get %d", i, b.want[i], b.out[i])
		}
	}
}

// scalarReupload: like reupload, but the kernel reads its input through SCALAR loads (s_load_dword of in[1] and
// in[2]; kernel k5 of the CU world: out[gid] = in[1] + in[2] + local id) and the host overwrites the input between
// two launches. What the first launch left in a scalar (or instruction) cache must not survive the host's upload.
type scalarReupload struct {
	driver  *driver.Driver
	context *driver.Context
	gpus    []int
	Items   int
	Rounds  int
	useUM   bool

	out  []uint32
	want []uint32
}

type scalarReuploadArgs struct {
	In, Out        driver.Ptr
	Mask, Pad      uint32
	Tmp, In2, Out2 driver.Ptr
}

func newScalarReupload(d *driver.Driver, p map[string]int) *scalarReupload {
	b := &scalarReupload{driver: d, Items: def(p, "items", 4096), Rounds: def(p, "rounds", 2)}
	b.context = d.Init()
	return b
}

func (b *scalarReupload) SelectGPU(gpus []int) { b.gpus = gpus }
func (b *scalarReupload) SetUnifiedMemory()    { b.useUM = true }

func (b *scalarReupload) alloc(gpu int, n uint64) driver.Ptr {
	b.driver.SelectGPU(b.context, gpu)
	if b.useUM {
		return b.driver.AllocateUnifiedMemory(b.context, n)
	}
	return b.driver.AllocateMemory(b.context, n)
}

func (b *scalarReupload) Run() {
	owner, worker := b.gpus[0], b.gpus[len(b.gpus)-1]
	in := b.alloc(owner, 4096)
	out := b.alloc(worker, uint64(4*b.Items))
	co := cuworld.DriverCodeObject(cuworld.LoadKernels("")["k5_waitcnt_lgkm"], 64)
	b.want = make([]uint32, b.Items)
	for r := 0; r < b.Rounds; r++ {
		data := make([]uint32, 1024)
		for i := range data {
			data[i] = uint32(100000*(r+1) + 7*i)
		}
		b.driver.MemCopyH2D(b.context, in, data)
		b.driver.SelectGPU(b.context, worker)
		b.driver.LaunchKernel(b.context, co, [3]uint32{uint32(b.Items), 1, 1}, [3]uint16{64, 1, 1},
			&scalarReuploadArgs{In: in, Out: out, Mask: 63})
		for i := range b.want {
			b.want[i] = data[1] + data[2] + uint32(i%64)
		}
	}
	b.out = make([]uint32, b.Items)
	b.driver.MemCopyD2H(b.context, b.out, out)
}

func (b *scalarReupload) Verify() {
	for i := range b.out {
		if b.out[i] != b.want[i] {
			log.Panicf("Mismatch at %d, expected %d (from the last upload), but get %d", i, b.want[i], b.out[i])
		}
	}
}

// workItemIDs3D launches one 3-D work-group of 4 x 4 x Z work-items (Z = 8: two wavefronts, the second one starts
// beyond the first XY plane) that stores x | y << 8 | z << 16 at out[z*16 + y*4 + x]: the hardware-initialised
// work-item ids of every lane, on whatever platform runs it.
type workItemIDs3D struct {
	driver  *driver.Driver
	context *driver.Context
	gpus    []int
	Z       int
	out     []uint32
}

func newWorkItemIDs3D(d *driver.Driver, p map[string]int) *workItemIDs3D {
	b := &workItemIDs3D{driver: d, Z: def(p, "z", 8)}
	b.context = d.Init()
	return b
}

func (b *workItemIDs3D) SelectGPU(gpus []int) { b.gpus = gpus }
func (b *workItemIDs3D) SetUnifiedMemory()    {}

func (b *workItemIDs3D) Run() {
	b.driver.SelectGPU(b.context, b.gpus[len(b.gpus)-1])
	n := 16 * b.Z
	out := b.driver.AllocateMemory(b.context, uint64(4*n))
	b.driver.MemCopyH2D(b.context, out, make([]uint32, n))
	co := cuworld.DriverCodeObject3D(cuworld.LoadKernels("")["p1_workitem_ids_3d_4x4xZ"])
	b.driver.LaunchKernel(b.context, co, [3]uint32{4, 4, uint32(b.Z)}, [3]uint16{4, 4, uint16(b.Z)}, &scalarReuploadArgs{Out: out})
	b.out = make([]uint32, n)
	b.driver.MemCopyD2H(b.context, b.out, out)
}

func (b *workItemIDs3D) Verify() {
	for z := 0; z < b.Z; z++ {
		for y := 0; y < 4; y++ {
			for x := 0; x < 4; x++ {
				i := z*16 + y*4 + x
				if want := uint32(x | y<<8 | z<<16); b.out[i] != want {
					log.Panicf("Mismatch at %d (work-item %d,%d,%d), expected %#x, but get %#x", i, x, y, z, want, b.out[i])
				}
			}
		}
	}
}


// loadStoreVmcnt1 runs kernel k18 of the CU world on a real platform: every work-item loads in[gid] (never touched
// by the device before: TLB, L1, L2 all miss), stores to out2[gid] (line and translation warmed by an earlier store
// of the same kernel) and waits with s_waitcnt vmcnt(1) before it uses the loaded value: out[gid] = in[gid] + 3.
// The memory hierarchy may be able to acknowledge the store first; the wait must still cover the load.
type loadStoreVmcnt1 struct {
	driver  *driver.Driver
	context *driver.Context
	gpus    []int
	Items   int
	useUM   bool

	in, out, out2 []uint32
}

func newLoadStoreVmcnt1(d *driver.Driver, p map[string]int) *loadStoreVmcnt1 {
	b := &loadStoreVmcnt1{driver: d, Items: def(p, "items", 4096)}
	b.context = d.Init()
	return b
}

func (b *loadStoreVmcnt1) SelectGPU(gpus []int) { b.gpus = gpus }
func (b *loadStoreVmcnt1) SetUnifiedMemory()    { b.useUM = true }

func (b *loadStoreVmcnt1) Run() {
	b.driver.SelectGPU(b.context, b.gpus[len(b.gpus)-1])
	alloc := func() driver.Ptr {
		if b.useUM {
			return b.driver.AllocateUnifiedMemory(b.context, uint64(4*b.Items))
		}
		return b.driver.AllocateMemory(b.context, uint64(4*b.Items))
	}
	in, out, out2 := alloc(), alloc(), alloc()
	b.in = make([]uint32, b.Items)
	for i := range b.in {
		b.in[i] = uint32(i)*2246822519 + 12345
	}
	b.driver.MemCopyH2D(b.context, in, b.in)
	b.driver.MemCopyH2D(b.context, out, make([]uint32, b.Items))
	b.driver.MemCopyH2D(b.context, out2, make([]uint32, b.Items))
	co := cuworld.DriverCodeObject(cuworld.LoadKernels("")["k18_cold_load_then_warm_store_wait_vmcnt1"], 64)
	b.driver.LaunchKernel(b.context, co, [3]uint32{uint32(b.Items), 1, 1}, [3]uint16{64, 1, 1},
		&scalarReuploadArgs{In: in, Out: out, Mask: 63, Out2: out2})
	b.out, b.out2 = make([]uint32, b.Items), make([]uint32, b.Items)
	b.driver.MemCopyD2H(b.context, b.out, out)
	b.driver.MemCopyD2H(b.context, b.out2, out2)
}

func (b *loadStoreVmcnt1) Verify() {
	for i := range b.out {
		if b.out[i] != b.in[i]+3 {
			log.Panicf("Mismatch at %d, expected %d (the loaded value + 3), but get %d", i, b.in[i]+3, b.out[i])
		}
		if b.out2[i] != uint32(i%64) {
			log.Panicf("Mismatch in out2 at %d, expected %d, but get %d", i, i%64, b.out2[i])
		}
	}
}


// copyOverlapsKernel: two command queues of one process. Kernel K1 (k8 of the CU world: out[gid] = local id + 9)
// runs on queue 1 and is drained. Then K2 (the same kernel, another output buffer) is enqueued on queue 1 and,
// while it runs, queue 2 reads K1's output back in Chunks pieces; both queues are drained and the host reads K2's
// output. Every command observes what completed before it; no two commands race. A flush acknowledged for queue
// 2's copies while K2 is still writing must not make the later read-back of K2's output skip its own flush.
type copyOverlapsKernel struct {
	driver  *driver.Driver
	context *driver.Context
	gpus    []int
	Items   int
	Chunks  int
	useUM   bool

	out1, out2 []uint32
}

func newCopyOverlapsKernel(d *driver.Driver, p map[string]int) *copyOverlapsKernel {
	b := &copyOverlapsKernel{driver: d, Items: def(p, "items", 65536), Chunks: def(p, "chunks", 8)}
	b.context = d.Init()
	return b
}

func (b *copyOverlapsKernel) SelectGPU(gpus []int) { b.gpus = gpus }
func (b *copyOverlapsKernel) SetUnifiedMemory()    { b.useUM = true }

func (b *copyOverlapsKernel) Run() {
	b.driver.SelectGPU(b.context, b.gpus[len(b.gpus)-1])
	alloc := func() driver.Ptr {
		if b.useUM {
			return b.driver.AllocateUnifiedMemory(b.context, uint64(4*b.Items))
		}
		return b.driver.AllocateMemory(b.context, uint64(4*b.Items))
	}
	o1, o2 := alloc(), alloc()
	b.driver.MemCopyH2D(b.context, o1, make([]uint32, b.Items))
	b.driver.MemCopyH2D(b.context, o2, make([]uint32, b.Items))
	co := cuworld.DriverCodeObject(cuworld.LoadKernels("")["k8_store_then_endpgm"], 64)
	q1 := b.driver.CreateCommandQueue(b.context)
	q2 := b.driver.CreateCommandQueue(b.context)
	grid, wg := [3]uint32{uint32(b.Items), 1, 1}, [3]uint16{64, 1, 1}
	b.driver.EnqueueLaunchKernel(q1, co, grid, wg, &scalarReuploadArgs{Out: o1, Mask: 63})
	b.driver.DrainCommandQueue(q1)
	b.driver.EnqueueLaunchKernel(q1, co, grid, wg, &scalarReuploadArgs{Out: o2, Mask: 63})
	b.out1 = make([]uint32, b.Items)
	per := b.Items / b.Chunks
	for c := 0; c < b.Chunks; c++ {
		b.driver.EnqueueMemCopyD2H(q2, b.out1[c*per:(c+1)*per], o1+driver.Ptr(4*c*per))
	}
	b.driver.DrainCommandQueue(q2)
	b.driver.DrainCommandQueue(q1)
	b.out2 = make([]uint32, b.Items)
	b.driver.MemCopyD2H(b.context, b.out2, o2)
}

func (b *copyOverlapsKernel) Verify() {
	for i := range b.out1 {
		want := uint32(i%64) + 9
		if b.out1[i] != want {
			log.Panicf("Mismatch in the first kernel's output at %d, expected %d, but get %d", i, want, b.out1[i])
		}
		if b.out2[i] != want {
			log.Panicf("Mismatch in the second kernel's output at %d, expected %d, but get %d", i, want, b.out2[i])
		}
	}
}
