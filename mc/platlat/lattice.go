package platlat

import (
	_ "embed"
	"encoding/json"
	"fmt"
)

//go:embed c01_matrix.json
var matrixJSON []byte

// Size is one entry of a workload's size alphabet.
type Size struct {
	Name      string         `json:"name"`
	Params    map[string]int `json:"params"`
	PlainGPUs []int          `json:"plain_gpus"`
	Quick     bool           `json:"quick"`
	Timing    bool           `json:"timing"`
	Spread    bool           `json:"spread"` // enough work-groups for a unified device to really spread them
	Why       string         `json:"why"`
}

// TimingClasses is what the acceptance matrix lists for a workload.
type TimingClasses struct {
	GPU     string   `json:"gpu"`
	Classes []string `json:"classes"`
	UM      bool     `json:"um"`
	Why     string   `json:"why"`
}

// Entry is one workload record of c01_matrix.json.
type Entry struct {
	Name       string         `json:"name"`
	Path       string         `json:"path"`
	Archs      []string       `json:"archs"`
	WG         string         `json:"wg"`
	PlainMulti string         `json:"plain_multi"` // split | last-gpu | rejected
	UM         bool           `json:"um"`
	Grid       string         `json:"grid"`
	Timing     *TimingClasses `json:"timing"`
	Sizes      []Size         `json:"sizes"`
	// Synthetic: a host program of this harness, not a shipped workload. Only the placement lattice (C18a)
	// runs it, in timing mode also in the quick tier.
	Synthetic bool `json:"synthetic"`
	// EmuOnly: too long for a cycle-level run (the xor training workload: 50 epochs of many small kernels); it is
	// in C01's emulation lattice only, not in the timing-vs-emulation (C02), placement (C18) or repeat (C05) lattices
	EmuOnly bool `json:"emu_only,omitempty"`
}

// Matrix is the parsed c01_matrix.json.
type Matrix struct {
	Workloads []Entry `json:"workloads"`
}

// LoadMatrix parses the embedded matrix.
func LoadMatrix() *Matrix {
	var m Matrix
	if err := json.Unmarshal(matrixJSON, &m); err != nil {
		panic("c01_matrix.json: " + err.Error())
	}
	for _, e := range m.Workloads {
		if Lookup(e.Name) == nil {
			panic("c01_matrix.json: workload without registry entry: " + e.Name)
		}
	}
	return &m
}

// Entry finds a workload record.
func (m *Matrix) Entry(name string) *Entry {
	for i := range m.Workloads {
		if m.Workloads[i].Name == name {
			return &m.Workloads[i]
		}
	}
	return nil
}

// GPUSetSpec is one element of the GPU-set alphabet.
type GPUSetSpec struct {
	GPUs    []int
	Unified bool
}

func (g GPUSetSpec) String() string { return Case{GPUs: g.GPUs, Unified: g.Unified}.GPUSet() }

// The GPU-set alphabet of the property: {1}, {1,2}, {1,2,3,4} plain and unified.
var (
	G1    = GPUSetSpec{[]int{1}, false}
	G12   = GPUSetSpec{[]int{1, 2}, false}
	G1234 = GPUSetSpec{[]int{1, 2, 3, 4}, false}
	U1    = GPUSetSpec{[]int{1}, true}
	U12   = GPUSetSpec{[]int{1, 2}, true}
	U1234 = GPUSetSpec{[]int{1, 2, 3, 4}, true}
)

func contains(l []int, v int) bool {
	for _, x := range l {
		if x == v {
			return true
		}
	}
	return false
}

func containsS(l []string, v string) bool {
	for _, x := range l {
		if x == v {
			return true
		}
	}
	return false
}

// Admissible reports whether (size, GPU set) is a valid configuration of the
// workload, with the reason when it is not.
func (e *Entry) Admissible(s Size, g GPUSetSpec) (bool, string) {
	if g.Unified || len(g.GPUs) == 1 {
		return true, ""
	}
	switch e.PlainMulti {
	case "rejected":
		return false, "SelectGPU rejects more than one GPU"
	case "last-gpu":
		return true, ""
	}
	if !contains(s.PlainGPUs, len(g.GPUs)) {
		return false, fmt.Sprintf("size not divisible for a %d-GPU split", len(g.GPUs))
	}
	return true, ""
}

// LatticeStats counts what the generator admitted and dropped.
type LatticeStats struct {
	PerWorkload  map[string]int
	Inadmissible int
	Emu, Timing  int
}

// C01Cases enumerates the C01 lattice for a tier.
//
// quick: emulation only; sizes marked quick (2 per workload); every shipped
// arch; GPU sets {1}, {1,2} plain and {1,2} unified; unified memory off/on;
// plus the many-work-group size (marked spread) on the unified {1,2} device,
// the only quick point where a unified device really spreads work-groups.
//
// thorough: emulation over the full product size x arch x {g1,g12,g1234,u12,
// u1234} x UM{off,on}; timing over the configuration classes cases.go lists
// for the workload (GPU model fixed by the arch), sizes marked timing.
func (m *Matrix) C01Cases(thorough bool) ([]Case, LatticeStats) {
	st := LatticeStats{PerWorkload: map[string]int{}}
	var out []Case
	add := func(c Case) {
		out = append(out, c)
		st.PerWorkload[c.Workload]++
		if c.Mode == "emu" {
			st.Emu++
		} else {
			st.Timing++
		}
	}
	sets := []GPUSetSpec{G1, G12, U12}
	if thorough {
		sets = []GPUSetSpec{G1, G12, G1234, U12, U1234}
	}
	for i := range m.Workloads {
		e := &m.Workloads[i]
		if e.Synthetic {
			continue
		}
		for _, s := range e.Sizes {
			if !thorough && !s.Quick && !s.Spread {
				continue
			}
			for _, a := range e.Archs {
				for _, g := range sets {
					if !thorough && !s.Quick && !g.Unified {
						continue // quick: the many-work-group size only on the unified device
					}
					if ok, _ := e.Admissible(s, g); !ok {
						st.Inadmissible++
						continue
					}
					for _, um := range []bool{false, true} {
						if um && (!e.UM || s.Spread) {
							continue // the many-work-group sizes run without unified memory only (cost)
						}
						add(Case{Workload: e.Name, Params: s.Params, SizeName: s.Name, Arch: a,
							GPUs: g.GPUs, Unified: g.Unified, UM: um, Mode: "emu"})
					}
				}
			}
		}
		if !thorough || e.Timing == nil {
			continue
		}
		a := "gcn3"
		if e.Timing.GPU == "mi300a" {
			a = "cdna3"
		}
		if !containsS(e.Archs, a) {
			continue
		}
		for _, s := range e.Sizes {
			if !s.Timing {
				continue
			}
			for _, g := range sets {
				if !containsS(e.Timing.Classes, g.String()) {
					continue
				}
				if ok, _ := e.Admissible(s, g); !ok {
					st.Inadmissible++
					continue
				}
				for _, um := range []bool{false, true} {
					if um && !(e.UM && e.Timing.UM) {
						continue
					}
					add(Case{Workload: e.Name, Params: s.Params, SizeName: s.Name, Arch: a,
						GPUs: g.GPUs, Unified: g.Unified, UM: um, Mode: "timing", GPUType: e.Timing.GPU})
				}
			}
		}
	}
	return out, st
}

// GPUClass names the spread class used in signatures.
func (c Case) GPUClass() string {
	switch {
	case c.Unified && len(c.GPUs) > 1:
		return "unified-multi"
	case c.Unified:
		return "unified-single"
	case len(c.GPUs) > 1:
		return "plain-multi"
	}
	return "single"
}
