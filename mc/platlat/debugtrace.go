package platlat

import (
	"fmt"
	"os"
	"sort"
	"sync"

	"github.com/sarchlab/akita/v4/tracing"
)

// openTaskTracer (diagnostic, PLATLAT_TRACE_TASKS=1) remembers every tracing
// task that has started and not ended; on a structural hang the list says where
// the simulated hardware stopped.
type openTaskTracer struct {
	mu   sync.Mutex
	open map[string]tracing.Task
}

func (t *openTaskTracer) StartTask(task tracing.Task) {
	t.mu.Lock()
	t.open[task.ID] = task
	t.mu.Unlock()
}
func (t *openTaskTracer) StepTask(tracing.Task)          {}
func (t *openTaskTracer) AddMilestone(tracing.Milestone) {}
func (t *openTaskTracer) EndTask(task tracing.Task) {
	t.mu.Lock()
	delete(t.open, task.ID)
	t.mu.Unlock()
}

var debugTracer *openTaskTracer

func attachDebugTracer(p *Platform) {
	if os.Getenv("PLATLAT_TRACE_TASKS") == "" {
		return
	}
	debugTracer = &openTaskTracer{open: map[string]tracing.Task{}}
	for _, c := range p.Sim.Components() {
		if h, ok := c.(tracing.NamedHookable); ok {
			tracing.CollectTrace(h, debugTracer)
		}
	}
}

func dumpOpenTasks() {
	if debugTracer == nil {
		return
	}
	debugTracer.mu.Lock()
	defer debugTracer.mu.Unlock()
	count := map[string]int{}
	for _, t := range debugTracer.open {
		count[fmt.Sprintf("%s | %s | %s", t.Location, t.Kind, t.What)]++
	}
	keys := make([]string, 0, len(count))
	for k := range count {
		keys = append(keys, k)
	}
	sort.Strings(keys)
	for i, k := range keys {
		if i > 80 {
			break
		}
		fmt.Fprintf(os.Stderr, "PLATLAT-OPEN-TASK %4d x %s\n", count[k], k)
	}
}
