package platlat

import (
	"fmt"
	"strings"
)

// C01Signature names a failing lattice point. A failure that matches a triaged
// root cause (triageRules) gets that root cause's narrow signature (workload +
// configuration class + symptom); anything else gets the full generic
// signature workload/arch/spread/size/platform/GPU set/symptom, so that an
// unknown failure can never hide behind a known one.
func C01Signature(o Outcome) string {
	c := o.Case
	for _, r := range triageRules {
		if r.match(c, o) {
			return "C01: " + r.sig(c, o)
		}
	}
	um := ""
	if c.UM {
		um = "/um"
	}
	return fmt.Sprintf("C01: %s/%s/%s/%s/%s/%s%s/%s", c.Workload, c.Arch, c.GPUClass(), c.SizeName, c.Platform(), c.GPUSet(), um, o.Symptom)
}

type triageRule struct {
	match func(c Case, o Outcome) bool
	sig   func(c Case, o Outcome) string
}

func isMismatch(o Outcome) bool {
	return o.Symptom == "verify-mismatch" || o.Symptom == "strong-oracle-mismatch"
}

var offsetSplit = map[string]bool{"aes": true, "bitonicsort": true, "fir": true, "kmeans": true, "relu": true,
	"simpleconvolution": true, "vectoradd": true, "matrixmultiplication": true}

// triageRules: one rule per root cause established by hand (notes/C01.md).
// Order matters: the first match wins.
var triageRules = []triageRule{
	{ // emu instruction fetch always reads 8 bytes (emu/computeunit.go:326): a 4-byte last
		// instruction in the last 4 bytes of the last mapped page of the code buffer panics.
		match: func(c Case, o Outcome) bool {
			return c.Mode == "emu" && strings.Contains(o.Symptom, "page-not-found-in-page-table") && strings.Contains(o.Symptom, "runWfUntilBarrier")
		},
		sig: func(c Case, o Outcome) string {
			return fmt.Sprintf("emu/%s/instruction-fetch-8-bytes-crosses-into-unmapped-page/%s/%s/%s", c.Arch, c.Workload, c.SizeName, c.GPUSet())
		},
	},
	{ // timing, plain multi-GPU: defaultMemoryCopyMiddleware.processFlushReturn (driver/memorycopy.go)
		// removes the flush request from the copy command but never completes the command, so a
		// copy whose data requests are answered BEFORE the last flush acknowledgement is never
		// dequeued (the flush is slow when another GPU's kernel is still running).
		match: func(c Case, o Outcome) bool {
			return c.Mode == "timing" && o.Status == "hang" && o.Symptom == "hang-memcopy-answered-but-never-dequeued"
		},
		sig: func(c Case, o Outcome) string {
			return fmt.Sprintf("%s/%s/memcopy-answered-before-last-flush-ack-never-dequeued/hang/%s/%s/%s", c.Platform(), c.GPUClass(), c.Workload, c.SizeName, c.GPUSet())
		},
	},
	{ // timing, unified memory on plain multi-GPU: page migration -> RDMA drain -> nil pointer
		match: func(c Case, o Outcome) bool {
			return c.Mode == "timing" && c.UM && strings.Contains(o.Symptom, "NewRDMADrainRspToDriver")
		},
		sig: func(c Case, o Outcome) string {
			return fmt.Sprintf("%s/%s/um/page-migration-rdma-drain-rsp-nil-pointer/%s/%s/%s", c.Platform(), c.GPUClass(), c.Workload, c.SizeName, c.GPUSet())
		},
	},
	{ // host reference cpuAtax indexes x[j] for j < NY while x has NX elements
		match: func(c Case, o Outcome) bool {
			return c.Workload == "atax" && c.Params["nx"] < c.Params["ny"] && strings.Contains(o.Symptom, "index-out-of-range") && strings.Contains(o.Symptom, "cpuAtax")
		},
		sig: func(c Case, o Outcome) string {
			return fmt.Sprintf("atax/%s/nx<ny/host-reference-index-out-of-range", c.Arch)
		},
	},
	{ // conv2d backward on cdna3: a kernel of the backward pass reads past its buffers (not root-caused)
		match: func(c Case, o Outcome) bool {
			return c.Workload == "conv2d" && c.Arch == "cdna3" && c.Params["backward"] == 1 && strings.Contains(o.Symptom, "page-not-found") && strings.Contains(o.Symptom, "runFlatLoadDWord")
		},
		sig: func(c Case, o Outcome) string {
			return "conv2d/cdna3/backward/flat-load-from-unmapped-page"
		},
	},
	{ // MM kernel indexes matrix A by the LOCAL row id: rows >= 32 of C are computed from rows 0..31 of A.
		match: func(c Case, o Outcome) bool {
			return c.Workload == "matrixmultiplication" && c.Params["y"] >= 64 && o.Symptom == "strong-oracle-mismatch"
		},
		sig: func(c Case, o Outcome) string {
			return fmt.Sprintf("matrixmultiplication/%s/y>=64/kernel-indexes-A-by-local-row-id/whole-matrix-mismatch", c.Arch)
		},
	},
	{ // gfx942 (HIP) kernels never read the hidden global offset the host uses to split the grid over plain GPUs.
		match: func(c Case, o Outcome) bool {
			return c.Arch == "cdna3" && c.Mode == "emu" && c.GPUClass() == "plain-multi" && offsetSplit[c.Workload] && isMismatch(o)
		},
		sig: func(c Case, o Outcome) string {
			return fmt.Sprintf("%s/cdna3/plain-multi/hidden-global-offset-ignored/verify-mismatch", c.Workload)
		},
	},
	{ // every GPU runs the whole transform on the same buffer
		match: func(c Case, o Outcome) bool {
			return c.Workload == "fastwalshtransform" && c.GPUClass() == "plain-multi" && isMismatch(o)
		},
		sig: func(c Case, o Outcome) string {
			return fmt.Sprintf("fastwalshtransform/%s/plain-multi/every-gpu-runs-the-whole-transform/verify-mismatch", c.Arch)
		},
	},
	{ // host passes zero hidden group size, gfx942 kernel multiplies the block id by it
		match: func(c Case, o Outcome) bool {
			return c.Workload == "spmv" && c.Arch == "cdna3" && c.Params["dim"] > 128 && isMismatch(o)
		},
		sig: func(c Case, o Outcome) string {
			return "spmv/cdna3/dim>128/hidden-group-size-not-passed/verify-mismatch"
		},
	},
	{ // kernel 2 is launched for blk = 1..N ascending (upstream: descending)
		match: func(c Case, o Outcome) bool {
			return c.Workload == "nw" && c.Params["length"] >= 192 && isMismatch(o)
		},
		sig: func(c Case, o Outcome) string {
			return fmt.Sprintf("nw/%s/length>=192/kernel2-block-order/verify-mismatch", c.Arch)
		},
	},
}
