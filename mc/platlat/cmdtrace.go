package platlat

import (
	"math"
	"sort"
	"strings"
	"sync"
	"time"

	"github.com/sarchlab/akita/v4/sim"
	"github.com/sarchlab/akita/v4/tracing"
	"github.com/sarchlab/mgpusim/v4/amd/timing/cu"
)

// cmdRecorder is a hook on the driver (the driver announces every command as a
// tracing task of kind "Driver Command": logCmdStart / logCmdComplete): it
// notes the simulated time at which each command starts and completes. The
// hook runs on the engine goroutine (inside Driver.Tick), so the engine time it
// reads is the time of the event being handled.
type cmdRecorder struct {
	mu   sync.Mutex
	eng  sim.Engine
	idx  map[string]int
	cmds []CmdTime
	// the magic memory-copy middleware completes a command inside ProcessCommand, i.e. BEFORE
	// processCommandWithMiddleware announces its start: the end is seen first
	early map[string]float64
}

func newCmdRecorder(p *Platform) *cmdRecorder {
	h := &cmdRecorder{eng: p.Sim.GetEngine(), idx: map[string]int{}, early: map[string]float64{}}
	p.Driver.AcceptHook(h)
	return h
}

func (h *cmdRecorder) Func(ctx sim.HookCtx) {
	task, ok := ctx.Item.(tracing.Task)
	if !ok {
		return
	}
	switch ctx.Pos {
	case tracing.HookPosTaskStart:
		if task.Kind != "Driver Command" {
			return
		}
		now := float64(h.eng.CurrentTime())
		h.mu.Lock()
		ct := CmdTime{Kind: strings.TrimPrefix(task.What, "*driver."), Start: now, End: -1}
		if e, ok := h.early[task.ID]; ok {
			ct.End = e
			delete(h.early, task.ID)
		} else {
			h.idx[task.ID] = len(h.cmds)
		}
		h.cmds = append(h.cmds, ct)
		h.mu.Unlock()
	case tracing.HookPosTaskEnd:
		now := float64(h.eng.CurrentTime())
		h.mu.Lock()
		if i, ok := h.idx[task.ID]; ok {
			h.cmds[i].End = now
			delete(h.idx, task.ID)
		} else if !strings.HasSuffix(task.ID, "_req_out") && len(h.early) < 1<<16 {
			h.early[task.ID] = now // not the end of a request the driver sent: a command that ends before it starts
		}
		h.mu.Unlock()
	}
}

func (h *cmdRecorder) result() []CmdTime {
	h.mu.Lock()
	defer h.mu.Unlock()
	return append([]CmdTime(nil), h.cmds...)
}

// counterTracer counts, for one component, the tracing tasks it starts (by
// kind and what), the steps it marks (cache and TLB hits and misses are steps),
// and the simulated time its tasks take (by kind): the raw material of every
// metric amd/samples/runner/report.go derives for that component (request
// count and average latency, hit / miss / mshr-hit counts, transaction counts,
// per-GPU kernel time).
type counterTracer struct {
	mu    sync.Mutex
	eng   sim.Engine
	comp  string
	open  map[string]openTask
	count map[string]float64
	busy  map[string]float64
	// cpi: the repository's own CPI-stack tracer of a compute unit (what the runner attaches with -report-cpi-stack /
	// -report-all); its rows are reported next to the counts
	cpi *cu.CPIStackTracer
}

type openTask struct {
	kind string
	at   float64
}

func (t *counterTracer) StartTask(task tracing.Task) {
	now := float64(t.eng.CurrentTime())
	t.mu.Lock()
	t.count["tasks/"+task.Kind+"/"+task.What]++
	t.open[task.ID] = openTask{task.Kind, now}
	t.mu.Unlock()
}

func (t *counterTracer) StepTask(task tracing.Task) {
	t.mu.Lock()
	for _, s := range task.Steps {
		t.count["steps/"+s.What]++
	}
	t.mu.Unlock()
}

func (t *counterTracer) AddMilestone(tracing.Milestone) {}

func (t *counterTracer) EndTask(task tracing.Task) {
	now := float64(t.eng.CurrentTime())
	t.mu.Lock()
	if o, ok := t.open[task.ID]; ok {
		t.busy["time/"+o.kind] += now - o.at
		delete(t.open, task.ID)
	}
	t.mu.Unlock()
}

// counted names the components the runner's reporter attaches tracers to
// (report.go: strings.Contains(comp.Name(), ...)), the compute units excepted:
// their instruction counts come from the PC recorder.
var counted = []string{"Cache", "TLB", "DRAM", "RDMA", "CommandProcessor"}

func attachCounters(p *Platform) []*counterTracer {
	var out []*counterTracer
	for _, c := range p.Sim.Components() {
		h, ok := c.(tracing.NamedHookable)
		if !ok {
			continue
		}
		if unit, ok := c.(*cu.ComputeUnit); ok {
			tr := cu.NewCPIStackInstHook(unit, p.Sim.GetEngine())
			tracing.CollectTrace(h, tr)
			out = append(out, &counterTracer{comp: c.Name(), cpi: tr})
			continue
		}
		for _, s := range counted {
			if strings.Contains(c.Name(), s) {
				t := &counterTracer{eng: p.Sim.GetEngine(), comp: c.Name(), open: map[string]openTask{},
					count: map[string]float64{}, busy: map[string]float64{}}
				tracing.CollectTrace(h, t)
				out = append(out, t)
				break
			}
		}
	}
	return out
}

func counterResult(ts []*counterTracer) []Counter {
	var out []Counter
	for _, t := range ts {
		if t.cpi != nil {
			for kind, stack := range map[string]map[string]float64{"CPIStack": t.cpi.GetCPIStack(), "SIMDCPIStack": t.cpi.GetSIMDCPIStack()} {
				for k, v := range stack {
					if math.IsNaN(v) || math.IsInf(v, 0) {
						continue // a compute unit that executed no instruction: x/0
					}
					out = append(out, Counter{Name: t.comp + "/" + kind + "." + k, Value: v})
				}
			}
			continue
		}
		t.mu.Lock()
		for k, v := range t.count {
			out = append(out, Counter{Name: t.comp + "/" + k, Value: v})
		}
		for k, v := range t.busy {
			out = append(out, Counter{Name: t.comp + "/" + k, Value: v, Time: true})
		}
		if n := len(t.open); n > 0 {
			out = append(out, Counter{Name: t.comp + "/tasks-never-ended", Value: float64(n)})
		}
		t.mu.Unlock()
	}
	sort.Slice(out, func(i, j int) bool { return out[i].Name < out[j].Name })
	return out
}

// waitEngineIdle waits (bounded) until the driver's engine goroutine has run
// out of events and returned, so that Engine.CurrentTime() is the time the
// simulation ended at and not a value read while the engine is still draining
// the components' idle ticks.
func waitEngineIdle(p *Platform) bool {
	for i := 0; i < 20000; i++ {
		if !engineRunning(p.Driver) && pendingEvents(p.Sim.GetEngine()) <= 0 {
			return true
		}
		time.Sleep(100 * time.Microsecond)
	}
	return false
}
