package platlat

import (
	"bytes"
	"context"
	"encoding/gob"
	"encoding/json"
	"errors"
	"fmt"
	"os"
	"os/exec"
	"path/filepath"
	"regexp"
	"strings"
	"sync/atomic"
	"time"
)

var scratchSeq int64

func scratchRoot() string {
	d := os.Getenv("VERIF_SCRATCH")
	if d == "" {
		d = "/verif/build/tmp"
	}
	return d
}

// Exec runs one case in a fresh worker subprocess whose cwd is a private
// scratch directory (recorder files akita_sim_*.sqlite3 land there) and
// removes the directory afterwards. cap is the kill-timer: a case that hits it
// is only marked "capped", it never decides the property.
func Exec(c Case, cap time.Duration) (o Outcome) {
	o = Outcome{Case: c}
	t0 := time.Now()
	defer func() { o.WallS = time.Since(t0).Seconds() }()
	dir := filepath.Join(scratchRoot(), fmt.Sprintf("platlat-%d-%d", os.Getpid(), atomic.AddInt64(&scratchSeq, 1)))
	if err := os.MkdirAll(dir, 0o755); err != nil {
		o.Status, o.Detail = "infra", err.Error()
		return o
	}
	defer os.RemoveAll(dir)
	cf, rf, lf := filepath.Join(dir, "case.json"), filepath.Join(dir, "result.gob"), filepath.Join(dir, "log.txt")
	data, _ := json.Marshal(c)
	os.WriteFile(cf, data, 0o644)
	exe, err := os.Executable()
	if err != nil {
		o.Status, o.Detail = "infra", err.Error()
		return o
	}
	logf, _ := os.Create(lf)
	ctx, cancel := context.WithTimeout(context.Background(), cap)
	defer cancel()
	cmd := exec.CommandContext(ctx, exe, workerFlag, cf, rf)
	cmd.Dir = dir
	cmd.Stdout = logf
	cmd.Stderr = logf
	// randseednop=0: math/rand.Seed works again (the main module says go 1.25, which would make it a
	// no-op), so the inputs the workloads draw from math/rand are the same in every run of a case.
	cmd.Env = append(os.Environ(), "GOMAXPROCS=2", "GOGC=50", "GODEBUG=randseednop=0")
	cmd.Env = append(cmd.Env, c.Env...) // os/exec keeps the last value of a duplicated key
	err = cmd.Run()
	logf.Close()
	logData, _ := os.ReadFile(lf)
	o.Stage = lastStage(logData)
	o.Races = raceBlocks(logData)
	if ctx.Err() != nil {
		o.Status = "capped"
		o.Detail = tail(logData, 1500)
		return o
	}
	if err != nil {
		var ee *exec.ExitError
		if errors.As(err, &ee) {
			o.ExitCode = ee.ExitCode()
		} else {
			o.Status, o.Detail = "infra", err.Error()
			return o
		}
		switch {
		case o.ExitCode == exitInfra:
			o.Status = "infra"
		case o.ExitCode == exitLostWakeup:
			o.Status, o.Symptom = "lostwakeup", "host-blocked-with-empty-queues"
			if m := hangKindRe.FindSubmatch(logData); m != nil {
				o.Symptom = string(m[1])
			}
		case o.ExitCode == exitNotQuiet:
			o.Status, o.Symptom = "fail", "not-quiescent-commands-left"
		case o.ExitCode == exitStrong:
			o.Status, o.Symptom = "fail", "strong-oracle-mismatch"
		case o.ExitCode == exitHang, bytes.Contains(logData, []byte("all goroutines are asleep - deadlock")):
			o.Status, o.Symptom = "hang", "hang-engine-idle-commands-outstanding"
			if m := hangKindRe.FindSubmatch(logData); m != nil {
				o.Symptom = "hang-" + string(m[1])
			}
		case o.ExitCode == -1 && (bytes.Contains(logData, []byte("out of memory")) || len(logData) < 80):
			// killed by a signal without having said anything: the OOM killer
			o.Status = "infra"
		default:
			o.Status = "fail"
			o.Symptom = symptom(o.Stage, logData)
		}
		o.Detail = excerpt(logData)
		return o
	}
	f, err := os.Open(rf)
	if err != nil {
		o.Status, o.Detail = "infra", "worker exited 0 without a result: "+tail(logData, 800)
		return o
	}
	defer f.Close()
	var res Result
	if err := gob.NewDecoder(f).Decode(&res); err != nil {
		o.Status, o.Detail = "infra", "result decode: "+err.Error()
		return o
	}
	o.Res = &res
	o.Status = "ok"
	return o
}

// raceBlocks keeps the race detector's reports of a worker's log.
func raceBlocks(log []byte) string {
	const head = "WARNING: DATA RACE"
	if !bytes.Contains(log, []byte(head)) {
		return ""
	}
	var sb strings.Builder
	for _, blk := range strings.Split(string(log), head)[1:] {
		if i := strings.Index(blk, "=================="); i >= 0 {
			blk = blk[:i]
		}
		sb.WriteString(head)
		sb.WriteString(blk)
		sb.WriteString("==================\n")
	}
	return sb.String()
}

var hangKindRe = regexp.MustCompile(`(?m)^PLATLAT-HANG-KIND (\S+)`)

var stageRe = regexp.MustCompile(`(?m)^PLATLAT-STAGE (\w+)`)

func lastStage(log []byte) string {
	m := stageRe.FindAllSubmatch(log, -1)
	if len(m) == 0 {
		return "start"
	}
	return string(m[len(m)-1][1])
}

func tail(b []byte, n int) string {
	if len(b) > n {
		b = b[len(b)-n:]
	}
	return string(b)
}

var (
	panicRe   = regexp.MustCompile(`(?m)^(?:\S+ \S+ )?(?:\S+\.go:\d+: )?(?:Panic: |panic: )(.*)$`)
	hexRe     = regexp.MustCompile(`0x[0-9a-fA-F]+`)
	numRe     = regexp.MustCompile(`-?\d+(\.\d+)?(e[+-]?\d+)?`)
	goFrameRe = regexp.MustCompile(`(?m)^(github\.com/sarchlab/[^\s(]+(?:\([^)]*\))?[^\s(]*)\(`)
)

// symptom condenses the worker's log into a short stable string: the stage it
// died in and, for a panic, the panic text with numbers removed plus the two
// innermost mgpusim frames.
func symptom(stage string, log []byte) string {
	if m := panicRe.FindSubmatch(log); m != nil {
		msg := string(m[1])
		msg = hexRe.ReplaceAllString(msg, "#")
		msg = numRe.ReplaceAllString(msg, "#")
		msg = strings.Join(strings.Fields(msg), "-")
		if len(msg) > 48 {
			msg = msg[:48]
		}
		var frames []string
		rest := log[bytes.Index(log, m[0]):]
		for _, fr := range goFrameRe.FindAllSubmatch(rest, -1) {
			f := string(fr[1])
			if strings.Contains(f, "driver.(*Driver).runEngine") || strings.Contains(f, "akita/") {
				continue
			}
			f = f[strings.LastIndex(f, "/")+1:]
			frames = append(frames, f)
			if len(frames) == 2 {
				break
			}
		}
		if stage == "verify" && !bytes.Contains(log, []byte("runEngine")) && !bytes.Contains(log, []byte("runtime error")) {
			return "verify-mismatch"
		}
		return stage + "-panic:" + msg + "@" + strings.Join(frames, "<")
	}
	if stage == "verify" {
		return "verify-mismatch"
	}
	return stage + "-died"
}

// excerpt keeps what a human needs: the lines after the last stage marker up
// to and including the panic line, without the goroutine dumps, at most 25
// lines.
func excerpt(log []byte) string {
	s := string(log)
	if i := strings.LastIndex(s, "PLATLAT-STAGE"); i >= 0 {
		s = s[i:]
	}
	var out []string
	skipping := false
	for _, l := range strings.Split(s, "\n") {
		switch {
		case strings.HasPrefix(l, "goroutine "):
			skipping = true
			continue
		case skipping && (l == "" || strings.HasPrefix(l, "\t") || strings.Contains(l, "(") && !strings.Contains(l, " ")):
			continue
		case skipping && strings.HasPrefix(l, "created by "):
			continue
		}
		skipping = false
		if strings.TrimSpace(l) == "" {
			continue
		}
		out = append(out, l)
		if len(out) >= 25 {
			out = append(out, "…")
			break
		}
	}
	return strings.Join(out, "\n")
}
