package platlat

import (
	"bytes"
	"encoding/json"
	"fmt"
	"os"
	"runtime"
	"sort"
	"strings"
	"sync"
	"time"

	"verif/mc/harness"
)

// C02Pair is the replay artefact of the C02 platform lattice: a timing
// platform configuration and its emulation reference.
type C02Pair struct {
	Kind string `json:"kind"` // "c02p"
	Ref  Case   `json:"ref"`
	Case Case   `json:"case"`
}

// timingKnobs is the alphabet of the knobs the GPU builders export
// (r9nano.Builder / mi300a.Builder: WithNumCUPerShaderArray,
// WithNumShaderArray, WithL2CacheSize, WithNumMemoryBank,
// WithLog2MemoryBankInterleavingSize) plus the driver's magic memory copy.
func timingKnobs(thorough bool) []Knobs {
	k := []Knobs{
		{},                     // shipped default (timingconfig.Builder itself)
		{CUPerSA: 1, NumSA: 1}, // one CU: every work-group on the same CU
		{CUPerSA: 2, NumSA: 2},
		{CUPerSA: 1, NumSA: 1, L2Size: 16 << 10, MemBanks: 1}, // everything small: evictions, write-backs, one bank
	}
	if thorough {
		k = append(k,
			Knobs{L2Size: 64 << 10}, // 4 KB per L2 bank
			Knobs{MemBanks: 4},      // fewer L2 banks / DRAM channels
			Knobs{Log2Inter: 12},
			Knobs{MagicCopy: true},
			Knobs{CUPerSA: 2, NumSA: 2, L2Size: 64 << 10, MemBanks: 4, Log2Inter: 8},
			Knobs{CUPerSA: 3, NumSA: 1},
		)
	}
	return k
}

// twoD lists the workloads whose kernels use a multi-dimensional work-group:
// at the smallest size they run a single work-group, which cannot show a slip
// in work-group ids, so a second size with several work-groups in both
// dimensions is added for them already in the quick tier.
var twoD = map[string]bool{"matrixmultiplication": true, "matrixtranspose": true, "floydwarshall": true,
	"stencil2d": true, "im2col": true, "conv2d": true}

// C02pCases enumerates emulation references and timing runs: every shipped
// workload at C01's smallest size(s), one GPU, GPU model fixing the ISA.
func (m *Matrix) C02pCases(thorough bool) (cases []Case, refs []int) {
	for i := range m.Workloads {
		e := &m.Workloads[i]
		if e.EmuOnly {
			continue
		}
		var sizes []Size
		for _, s := range e.Sizes {
			if len(sizes) == 0 || ((thorough || twoD[e.Name]) && s.Quick && len(sizes) < 2 && s.Name != sizes[0].Name) {
				sizes = append(sizes, s) // smallest legal; plus one quick-class size (thorough, or 2-D kernels)
			}
		}
		for _, s := range sizes {
			for _, a := range e.Archs {
				gpu := "r9nano"
				if a == "cdna3" {
					gpu = "mi300a"
				}
				ref := Case{Workload: e.Name, Params: s.Params, SizeName: s.Name, Arch: a, GPUs: []int{1}, Mode: "emu",
					WantBuffers: true, WantPCs: true, SkipVerify: true}
				ri := len(cases)
				ref.IsRef = true
				cases = append(cases, ref)
				ref.IsRef = false
				refs = append(refs, ri)
				for _, k := range timingKnobs(thorough) {
					c := ref
					c.Mode, c.GPUType, c.Knobs = "timing", gpu, k
					cases = append(cases, c)
					refs = append(refs, ri)
				}
			}
		}
	}
	return
}

func c02Sig(c Case, what string) string {
	return fmt.Sprintf("platform/%s/%s/%s/%s", c.Workload, c.Arch, c.GPUType, what)
}

// comparePlatform compares a timing run with its emulation reference: every
// live device buffer bit for bit, and for every wavefront - keyed by (launch
// number, work-group id, first work-item id), never by CU - the executed PC
// sequence, hence the retired instruction count.
func comparePlatform(emu, tim *Result) (what string, msg string) {
	if len(emu.Buffers) != len(tim.Buffers) {
		return "buffer-list-differs", fmt.Sprintf("emu has %d live buffers, timing %d", len(emu.Buffers), len(tim.Buffers))
	}
	// PCs first: a control-flow difference explains data differences, not the other way round
	ew := map[string]WfTrace{}
	for _, w := range emu.Wfs {
		if _, dup := ew[w.Key]; dup {
			return "wavefront-executed-twice-in-emu", w.Key
		}
		ew[w.Key] = w
	}
	seen := map[string]bool{}
	var sb strings.Builder
	pcDiff, missing, extra, dup := 0, 0, 0, 0
	for _, w := range tim.Wfs {
		if seen[w.Key] {
			dup++
			if dup == 1 {
				fmt.Fprintf(&sb, "wavefront %s appears twice in the timing run\n", w.Key)
			}
			continue
		}
		seen[w.Key] = true
		e, ok := ew[w.Key]
		if !ok {
			extra++
			if extra == 1 {
				fmt.Fprintf(&sb, "wavefront %s executed in timing mode only (%d instructions)\n", w.Key, w.Count)
			}
			continue
		}
		if e.Count == w.Count && e.Hash == w.Hash {
			continue
		}
		pcDiff++
		if pcDiff == 1 {
			fmt.Fprintf(&sb, "wavefront %s: emu executed %d instructions, timing %d", w.Key, e.Count, w.Count)
			if e.PCs != nil && w.PCs != nil {
				n := len(e.PCs)
				if len(w.PCs) < n {
					n = len(w.PCs)
				}
				k := 0
				for k < n && e.PCs[k] == w.PCs[k] {
					k++
				}
				if k < n {
					fmt.Fprintf(&sb, "; first divergence at instruction #%d: emu PC entry+%#x, timing PC entry+%#x (previous PC entry+%#x)", k, e.PCs[k], w.PCs[k], prev(e.PCs, k))
				} else {
					fmt.Fprintf(&sb, "; one sequence is a prefix of the other (common length %d)", n)
				}
			}
			sb.WriteString("\n")
		}
	}
	for k := range ew {
		if !seen[k] {
			missing++
			if missing == 1 {
				fmt.Fprintf(&sb, "wavefront %s executed in emulation only\n", k)
			}
		}
	}
	if dup+extra+missing > 0 {
		return "wavefront-set-differs", fmt.Sprintf("%d duplicated, %d timing-only, %d emu-only wavefronts (of %d)\n%s", dup, extra, missing, len(ew), sb.String())
	}
	bufDiff := 0
	var bb strings.Builder
	for i := range emu.Buffers {
		a, b := emu.Buffers[i], tim.Buffers[i]
		if a.Name != b.Name {
			return "buffer-list-differs", fmt.Sprintf("buffer #%d: emu %s, timing %s", i, a.Name, b.Name)
		}
		if bytes.Equal(a.Data, b.Data) {
			continue
		}
		bufDiff++
		if bufDiff <= 3 {
			n, first := 0, -1
			for o := range a.Data {
				if a.Data[o] != b.Data[o] {
					n++
					if first < 0 {
						first = o
					}
				}
			}
			lo := first &^ 3
			hi := lo + 4
			if hi > len(a.Data) {
				hi = len(a.Data)
			}
			fmt.Fprintf(&bb, "buffer %s: %d bytes differ, first at offset %d: emu % x, timing % x\n", a.Name, n, first, a.Data[lo:hi], b.Data[lo:hi])
		}
	}
	switch {
	case pcDiff > 0 && bufDiff > 0:
		return "pc-sequence-and-buffers-differ", fmt.Sprintf("%d of %d wavefronts execute a different PC sequence; %d of %d buffers differ\n%s%s", pcDiff, len(ew), bufDiff, len(emu.Buffers), sb.String(), bb.String())
	case pcDiff > 0:
		return "pc-sequence-differs", fmt.Sprintf("%d of %d wavefronts execute a different PC sequence (buffers equal)\n%s", pcDiff, len(ew), sb.String())
	case bufDiff > 0:
		return "final-buffers-differ", fmt.Sprintf("%d of %d buffers differ (PC sequences equal, %d instructions)\n%s", bufDiff, len(emu.Buffers), emu.InstCount, bb.String())
	}
	if emu.InstCount != tim.InstCount {
		return "instruction-count-differs", fmt.Sprintf("emu %d, timing %d", emu.InstCount, tim.InstCount)
	}
	return "", ""
}

func prev(p []uint32, k int) uint32 {
	if k == 0 {
		return 0
	}
	return p[k-1]
}

// RunC02Platform is layer 2 of C02. Conventions as RunC18a: coverage keys
// prefixed "platform_", signatures prefixed "platform/", never exits except
// when replaying one of its own replay files (kind "c02p").
func RunC02Platform(r *harness.Run) {
	if r.Replay != "" {
		replayC02p(r)
		return
	}
	t0 := time.Now()
	m := LoadMatrix()
	cases, refs := m.C02pCases(r.Thorough())
	cap := 5 * time.Minute
	if r.Thorough() {
		cap = 15 * time.Minute
	}
	outs := make([]Outcome, len(cases))
	var mu sync.Mutex
	st := RunAll(cases, runtime.NumCPU(), cap, r.Deadline(), func(i int, o Outcome) {
		mu.Lock()
		outs[i] = o
		mu.Unlock()
	})
	CleanScratch()

	type grp struct {
		first C02Pair
		msg   string
		names []string
		knobs []string
		sizes map[string]bool
	}
	groups := map[string]*grp{}
	add := func(sig string, p C02Pair, msg string) {
		g := groups[sig]
		if g == nil {
			g = &grp{first: p, msg: msg, sizes: map[string]bool{}}
			groups[sig] = g
		}
		g.names = append(g.names, p.Case.Name())
		g.knobs = append(g.knobs, p.Case.Knobs.String())
		g.sizes[p.Case.SizeName] = true
	}
	compared, equalN, undecided, refFailed := 0, 0, 0, 0
	var undecidedNames []string
	var insts, wfs int64
	classes := map[string]bool{}
	var samples []any
	for i, c := range cases {
		o := outs[i]
		pair := C02Pair{Kind: "c02p", Ref: cases[refs[i]], Case: c}
		switch o.Status {
		case "ok":
		case "", "capped", "infra", "lostwakeup":
			undecided++
			undecidedNames = append(undecidedNames, c.Name()+": "+o.Status+" "+o.Symptom)
			continue
		default:
			if c.Mode == "emu" {
				// the emulation reference itself fails: C01's subject, nothing to compare with
				undecided++
				refFailed++
				undecidedNames = append(undecidedNames, c.Name()+": "+o.Status+" "+o.Symptom)
				continue
			}
			if ro := outs[refs[i]]; ro.Status != "ok" {
				// the emulation run fails too: nothing to compare with (C01's subject)
				undecided++
				refFailed++
				undecidedNames = append(undecidedNames, c.Name()+": "+o.Status+" "+o.Symptom+" (emulation run: "+ro.Status+")")
				continue
			}
			add(c02Sig(c, "timing-run-failed:"+o.Symptom), pair, fmt.Sprintf("the timing run failed in stage %s (the emulation run of the same program completes):\n%s", o.Stage, o.Detail))
			continue
		}
		if refs[i] == i {
			continue
		}
		ro := outs[refs[i]]
		if ro.Status != "ok" {
			undecided++
			if ro.Status == "fail" || ro.Status == "hang" {
				refFailed++
			}
			undecidedNames = append(undecidedNames, c.Name()+": no emulation result ("+ro.Status+")")
			continue
		}
		compared++
		what, msg := comparePlatform(ro.Res, o.Res)
		if what == "" {
			equalN++
			insts += int64(o.Res.InstCount)
			wfs += int64(len(o.Res.Wfs))
			classes[fmt.Sprintf("%s/%s/%s", c.Workload, c.Arch, c.Platform())] = true
			if len(samples) < 6 && compared%37 == 1 {
				samples = append(samples, map[string]any{"emu": pair.Ref.Name(), "timing": c.Name(), "wavefronts": len(o.Res.Wfs),
					"instructions": o.Res.InstCount, "buffers": len(o.Res.Buffers), "verdict": "buffers and per-wavefront PC sequences identical", "timing_sim_time_s": o.Res.SimTime})
			}
			continue
		}
		add(c02Sig(c, what), pair, msg)
	}
	// A difference that shows for some knob settings only is itself the finding
	// ("timing parameters may change simulated time only"): name the settings.
	nKnobs := len(timingKnobs(r.Thorough()))
	for s, g := range groups {
		if len(g.knobs) < nKnobs*len(g.sizes) {
			ks := map[string]bool{}
			for _, k := range g.knobs {
				ks[k] = true
			}
			var l []string
			for k := range ks {
				l = append(l, k)
			}
			sort.Strings(l)
			delete(groups, s)
			if len(l) == 1 && l[0] == "magic" {
				// only with the driver's magic memory copy: one root cause (it never
				// flushes the write-back caches), whatever the workload
				c := g.first.Case
				groups[fmt.Sprintf("platform/magic-memory-copy-without-cache-flush/%s/%s/%s", c.GPUType, c.Workload, strings.TrimPrefix(s, c02Sig(c, "")))] = g
				continue
			}
			groups[s+"/only["+strings.Join(l, ",")+"]"] = g
		}
	}
	sigs := make([]string, 0, len(groups))
	for s := range groups {
		sigs = append(sigs, s)
	}
	sort.Strings(sigs)
	for _, s := range sigs {
		g := groups[s]
		show := g.names
		if len(show) > 6 {
			show = append(append([]string{}, show[:6]...), fmt.Sprintf("… (%d platform configurations)", len(g.names)))
		}
		r.Report(s, fmt.Sprintf("%d platform configuration(s):\n%s\nfirst: %s vs %s\n%s", len(g.names), strings.Join(show, "\n"),
			g.first.Case.Name(), g.first.Ref.Name(), g.msg), g.first)
	}
	r.Cov["platform_runs"] = st.Executed
	r.Cov["platform_comparisons"] = compared
	r.Cov["platform_identical"] = equalN
	r.Cov["platform_distinct_classes_identical"] = len(classes)
	r.Cov["platform_wavefronts_compared"] = wfs
	r.Cov["platform_instructions_compared"] = insts
	r.Cov["platform_differing_signatures"] = len(sigs)
	r.Cov["platform_undecided"] = undecided
	r.Cov["platform_undecided_cases"] = undecidedNames
	r.Cov["platform_knob_alphabet"] = func() []string {
		var l []string
		for _, k := range timingKnobs(r.Thorough()) {
			l = append(l, k.String())
		}
		return l
	}()
	r.Cov["platform_flaky"] = st.Flaky
	r.Cov["platform_driver_races_in_pool"] = st.LostWakeups
	r.Cov["platform_capped"] = st.Capped
	r.Cov["platform_samples"] = samples
	r.Cov["platform_wall_s"] = time.Since(t0).Seconds()
	r.Cov["platform_emulation_run_fails_too"] = refFailed
	r.Cov["platform_exhaustive"] = undecided == refFailed && len(st.Flaky) == 0 && st.NotStarted == 0
	r.Cov["platform_rule"] = "one comparison = one shipped workload at C01's smallest size on one timing platform configuration (GPU model x exported knobs) against the emulation platform, same inputs: every live device buffer (driver buffer list, read back with MemCopyD2H) bit for bit and every wavefront's executed PC sequence (emu CU hook vs timing CU 'inst' tracing tasks), keyed by (launch, work-group id, wavefront)"
	fmt.Printf("C02 platform lattice: %d runs, %d comparisons, %d identical, %d differing signature(s), %d undecided, %.0fs\n",
		st.Executed, compared, equalN, len(sigs), undecided, time.Since(t0).Seconds())
}

func replayC02p(r *harness.Run) {
	data, err := os.ReadFile(r.Replay)
	if err != nil {
		return
	}
	var f struct {
		Signature string  `json:"signature"`
		Case      C02Pair `json:"case"`
	}
	if json.Unmarshal(data, &f) != nil || f.Case.Kind != "c02p" {
		return
	}
	ref := Exec(f.Case.Ref, 15*time.Minute)
	o := Exec(f.Case.Case, 15*time.Minute)
	fmt.Printf("replay emu    %s: %s %s\nreplay timing %s: %s %s\n", f.Case.Ref.Name(), ref.Status, ref.Symptom, f.Case.Case.Name(), o.Status, o.Symptom)
	if ref.Status == "ok" && (o.Status == "fail" || o.Status == "hang") {
		fmt.Printf("VIOLATION property=%s replay=%s\n  signature: %s\n%s\n", r.ID, r.Replay, c02Sig(f.Case.Case, "timing-run-failed:"+o.Symptom), o.Detail)
		os.Exit(1)
	}
	if ref.Status != "ok" || o.Status != "ok" {
		fmt.Println("INFRASTRUCTURE ERROR: replay runs did not complete")
		os.Exit(2)
	}
	what, msg := comparePlatform(ref.Res, o.Res)
	if what == "" {
		fmt.Println("replay: no violation (buffers and PC sequences identical)")
		os.Exit(0)
	}
	fmt.Printf("VIOLATION property=%s replay=%s\n  signature: %s\n%s\n", r.ID, r.Replay, c02Sig(f.Case.Case, what), msg)
	os.Exit(1)
}
