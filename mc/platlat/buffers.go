package platlat

import (
	"reflect"
	"unsafe"

	"github.com/sarchlab/mgpusim/v4/amd/driver"
)

// This file is the only place that looks inside driver.Driver / driver.Context
// without an exported accessor. The driver keeps the list of a context's
// device buffers in the unexported Context.buffers ([]*buffer{vAddr,size,
// freed,...}) and the list of contexts in Driver.contexts. A `verif`-tagged
// hook (amd/driver/verif_hooks.go, owned by another check) exposes the same
// list; until it exists the fields are read through reflect+unsafe (read-only).
// Swapping to the hook means replacing the two functions below.

// DevBuffer is one live device buffer of a context.
type DevBuffer struct {
	Ctx  int // index of the context in Driver.contexts
	Idx  int // allocation index inside the context
	Addr driver.Ptr
	Size uint64
}

func unexported(v reflect.Value, name string) reflect.Value {
	f := v.FieldByName(name)
	if !f.IsValid() {
		panic("platlat: field " + name + " not found in " + v.Type().String())
	}
	return reflect.NewAt(f.Type(), unsafe.Pointer(f.UnsafeAddr())).Elem()
}

// Contexts lists the driver's contexts in creation order.
func Contexts(d *driver.Driver) []*driver.Context {
	v := unexported(reflect.ValueOf(d).Elem(), "contexts")
	return v.Interface().([]*driver.Context)
}

// LiveBuffers lists every not-freed buffer of every context, in (context,
// allocation) order.
func LiveBuffers(d *driver.Driver) []DevBuffer {
	var out []DevBuffer
	for ci, c := range Contexts(d) {
		bufs := unexported(reflect.ValueOf(c).Elem(), "buffers")
		for i := 0; i < bufs.Len(); i++ {
			b := bufs.Index(i).Elem()
			if unexported(b, "freed").Bool() {
				continue
			}
			out = append(out, DevBuffer{
				Ctx:  ci,
				Idx:  i,
				Addr: driver.Ptr(unexported(b, "vAddr").Uint()),
				Size: unexported(b, "size").Uint(),
			})
		}
	}
	return out
}

// bufferSize finds the size of the buffer that starts at addr.
func bufferSize(d *driver.Driver, addr driver.Ptr) (uint64, bool) {
	for _, b := range LiveBuffers(d) {
		if b.Addr == addr {
			return b.Size, true
		}
	}
	return 0, false
}

// engineIdle reports the driver's engineRunning flag (racy read, polling only).
func engineRunning(d *driver.Driver) bool {
	return unexported(reflect.ValueOf(d).Elem(), "engineRunning").Bool()
}
