package platlat

import (
	"bytes"
	"encoding/json"
	"fmt"
	"math"
	"os"
	"runtime"
	"sort"
	"strings"
	"sync"
	"time"

	"verif/mc/harness"
)

// C05 supplementary part: the REAL emulation and timing platforms are run
// several times on the same program, inputs and configuration, every run in a
// process of its own with a different GOMAXPROCS, and everything the property
// names is compared across the runs: final device memory, executed
// instructions (per wavefront, with work-group placement), simulated command
// durations (kernel times included), the counters the runner reports, and the
// absolute simulated times. Sampling over the Go runtime's nondeterminism (map
// iteration order, goroutine scheduling, addresses, wall clock), not
// exhaustive; the deciding part of C05 is the controlled-scheduler exploration.

// C05Rep is the replay artefact: one case and the class of difference seen.
type C05Rep struct {
	Kind  string `json:"kind"` // "c05rep"
	Case  Case   `json:"case"`
	Procs []int  `json:"gomaxprocs"`
	Class string `json:"class"`
}

// C05Procs are the GOMAXPROCS values of the repetitions of a case.
var C05Procs = []int{1, 3, 16}

const c05Label = "SUPPLEMENTARY, sampling over Go-runtime nondeterminism (3 processes per case, GOMAXPROCS 1/3/16; the second repeats the simulation in-process before the reported run, the third runs with GOGC=5): not exhaustive; the deciding part is the controlled-scheduler exploration"

// classes of difference, most serious first; a case is reported under the
// first class that shows.
const (
	c05Mem      = "device-memory"
	c05Insts    = "executed-instructions"
	c05Dur      = "command-durations"
	c05Counters = "counters"
	c05After    = "durations-after-start-shift"
	c05Abs      = "absolute-times-only"
)

var c05Classes = []string{c05Mem, c05Insts, c05Dur, c05Counters, c05After, c05Abs}

// c05Quick: the workloads of the quick tier (the cheapest at their smallest
// size on all four platforms, measured; see notes/C05.md).
var c05Quick = map[string]bool{
	"vectoradd": true, "fir": true, "relu": true, "atax": true, "simpleconvolution": true, "bitonicsort": true,
	"fastwalshtransform": true, "aes": true, "matrixmultiplication": true, "im2col": true, "fft": true, "stencil2d": true,
}

// c05Multi: workloads of the 2-GPU timing cases (plain split / last-gpu and
// unified), cheap ones.
var c05Multi = []string{"relu", "kmeans", "fir", "atax"}

func c05Want(c Case) Case {
	c.WantBuffers, c.WantOutputs, c.WantPCs, c.WantCmds, c.WantCounters, c.SkipVerify = true, true, true, true, true, true
	return c
}

// C05RepCases: every workload of the matrix at its smallest size on {emu gcn3,
// emu cdna3, timing r9nano (gcn3), timing mi300a (cdna3)} with one GPU and the
// shipped timing parameters, plus 2-GPU timing cases (plain and unified) for a
// few cheap workloads. quick: the cheapest workloads only and one 2-GPU pair.
func (m *Matrix) C05RepCases(thorough bool) []Case {
	var out []Case
	for i := range m.Workloads {
		e := &m.Workloads[i]
		if e.Synthetic || e.EmuOnly {
			continue
		}
		if !thorough && !c05Quick[e.Name] {
			continue
		}
		s := e.Sizes[0]
		for _, a := range e.Archs {
			gpu := "r9nano"
			if a == "cdna3" {
				gpu = "mi300a"
			}
			base := Case{Workload: e.Name, Params: s.Params, SizeName: s.Name, Arch: a, GPUs: []int{1}}
			emu := base
			emu.Mode = "emu"
			out = append(out, c05Want(emu))
			tim := base
			tim.Mode, tim.GPUType = "timing", gpu
			out = append(out, c05Want(tim))
		}
	}
	for k, name := range c05Multi {
		if !thorough && k > 0 {
			break
		}
		e := m.Entry(name)
		if e == nil || !containsS(e.Archs, "gcn3") {
			continue
		}
		for _, g := range []GPUSetSpec{G12, U12} {
			for _, s := range e.Sizes {
				if ok, _ := e.Admissible(s, g); !ok {
					continue
				}
				out = append(out, c05Want(Case{Workload: e.Name, Params: s.Params, SizeName: s.Name, Arch: "gcn3",
					GPUs: g.GPUs, Unified: g.Unified, Mode: "timing", GPUType: "r9nano"}))
				break
			}
		}
	}
	if thorough {
		// one unified 2-GPU device of the other GPU model (a class the acceptance matrix lists for vectoradd)
		if e := m.Entry("vectoradd"); e != nil {
			s := e.Sizes[0]
			out = append(out, c05Want(Case{Workload: e.Name, Params: s.Params, SizeName: s.Name, Arch: "cdna3",
				GPUs: U12.GPUs, Unified: true, Mode: "timing", GPUType: "mi300a"}))
		}
	}
	return out
}

// withProcs makes the repetition of a case that runs with the given GOMAXPROCS. The repetitions also differ in
// what the property calls "runs": the GOMAXPROCS=3 process runs the program once before the run it reports
// (a repeated simulation in one process), and the GOMAXPROCS=16 process collects garbage twenty times as often.
func withProcs(c Case, procs int) Case {
	c.Env = append(append([]string{}, c.Env...), fmt.Sprintf("GOMAXPROCS=%d", procs))
	switch procs {
	case 3:
		c.WarmRuns = 1
	case 16:
		c.Env = append(c.Env, "GOGC=5")
	}
	return c
}

// c05Stats is what the pool counted besides the outcomes.
type c05Stats struct {
	Runs        int
	DriverRaces []string // runs that ended in one of the driver's host-thread races (C12's subject), re-run
	InfraRetry  []string
	NotStarted  int
	CPUSeconds  float64
	SlowestS    float64
	Slowest     string
}

// c05RunAll executes every (case, GOMAXPROCS) pair in its own worker process,
// `workers` at a time, most expensive cases first. A run that ends in one of
// the driver's host-thread races (lost wake-up, engine hand-off: structural
// classification by the worker, status "lostwakeup") says nothing about the
// simulation and is repeated (up to 4 more times); a run that was killed or
// could not start (status infra) is repeated once.
func c05RunAll(cases []Case, procs []int, workers int, cap time.Duration, deadline time.Time) ([][]Outcome, c05Stats) {
	outs := make([][]Outcome, len(cases))
	for i := range outs {
		outs[i] = make([]Outcome, len(procs))
	}
	type job struct{ ci, ri int }
	var jobs []job
	order := make([]int, len(cases))
	for i := range order {
		order[i] = i
	}
	sort.SliceStable(order, func(a, b int) bool { return cost(cases[order[a]]) > cost(cases[order[b]]) })
	for _, ci := range order {
		for ri := range procs {
			jobs = append(jobs, job{ci, ri})
		}
	}
	st := c05Stats{DriverRaces: []string{}, InfraRetry: []string{}}
	var mu sync.Mutex
	next := 0
	var wg sync.WaitGroup
	for w := 0; w < workers; w++ {
		wg.Add(1)
		go func() {
			defer wg.Done()
			for {
				mu.Lock()
				if next >= len(jobs) {
					mu.Unlock()
					return
				}
				if time.Now().After(deadline) {
					st.NotStarted += len(jobs) - next
					next = len(jobs)
					mu.Unlock()
					return
				}
				j := jobs[next]
				next++
				mu.Unlock()
				c := withProcs(cases[j.ci], procs[j.ri])
				o := Exec(c, cap)
				wall := o.WallS
				n := 1
				for k := 0; k < 4 && o.Status == "lostwakeup"; k++ {
					mu.Lock()
					st.DriverRaces = append(st.DriverRaces, fmt.Sprintf("%s GOMAXPROCS=%d: %s", c.Name(), procs[j.ri], o.Symptom))
					mu.Unlock()
					o = Exec(c, cap)
					wall += o.WallS
					n++
				}
				if o.Status == "infra" {
					mu.Lock()
					st.InfraRetry = append(st.InfraRetry, fmt.Sprintf("%s GOMAXPROCS=%d: %s", c.Name(), procs[j.ri], firstLine(o.Detail)))
					mu.Unlock()
					o = Exec(c, cap)
					wall += o.WallS
					n++
				}
				o.Reruns = n - 1
				mu.Lock()
				st.Runs += n
				st.CPUSeconds += wall
				if o.WallS > st.SlowestS {
					st.SlowestS, st.Slowest = o.WallS, fmt.Sprintf("%s GOMAXPROCS=%d", c.Name(), procs[j.ri])
				}
				outs[j.ci][j.ri] = o
				mu.Unlock()
			}
		}()
	}
	wg.Wait()
	return outs, st
}

func blobsDiffer(what string, a, b []Blob) string {
	if len(a) != len(b) {
		return fmt.Sprintf("%s: %d vs %d entries", what, len(a), len(b))
	}
	for i := range a {
		if a[i].Name != b[i].Name {
			return fmt.Sprintf("%s #%d: %s vs %s", what, i, a[i].Name, b[i].Name)
		}
		if !bytes.Equal(a[i].Data, b[i].Data) {
			n, first := 0, -1
			for o := range a[i].Data {
				if o < len(b[i].Data) && a[i].Data[o] != b[i].Data[o] {
					n++
					if first < 0 {
						first = o
					}
				}
			}
			if first < 0 {
				return fmt.Sprintf("%s %s: sizes %d vs %d", what, a[i].Name, len(a[i].Data), len(b[i].Data))
			}
			lo := first &^ 3
			hi := lo + 4
			if hi > len(a[i].Data) {
				hi = len(a[i].Data)
			}
			return fmt.Sprintf("%s %s: %d bytes differ, first at offset %d: % x vs % x", what, a[i].Name, n, first, a[i].Data[lo:hi], b[i].Data[lo:hi])
		}
	}
	return ""
}

func dur(c CmdTime) float64 {
	if c.End < 0 {
		return -1e-9 // never completed
	}
	return c.End - c.Start
}

const timeTol = 5e-13 // half a picosecond: simulated times are multiples of component cycles (>= 100 ps)

func ns(t float64) string { return fmt.Sprintf("%.3fns", t*1e9) }

// c05Pair is the comparison of two runs of a case.
type c05Pair struct {
	Class string // "" = identical in everything
	Msg   string
}

// c05Compare compares run b with run a (labels la, lb).
//
// Memory and executed instructions are compared first. The simulated times are
// then walked in command order and the FIRST divergence decides the class:
//
//   - a command that starts at the same time in both runs (as did every command
//     before it, with the same durations) but takes a different time:
//     command-durations;
//   - no command time differs but a counter does: counters;
//   - a command that STARTS at a different time although everything before it is
//     identical: that is the listed defect of C05 (the simulated time at which a
//     host call enters the simulation depends on how far the engine goroutine
//     had drained its idle ticks). From there on the two runs are two different
//     simulations of the same program: where a component runs in a clock domain
//     other than the driver's 1 GHz (mi300a: 1.7 GHz; the emulated CU runs a
//     work-group at the next whole second) the shift changes the phase, and
//     later durations and time counters may differ by a cycle. Such a pair is
//     absolute-times-only when every duration and counter still agrees, else
//     durations-after-start-shift; neither says anything about a second source
//     of nondeterminism after the shift (the other pairs of the case may).
func c05Compare(la, lb string, a, b *Result) c05Pair {
	pre := la + " vs " + lb + ": "
	if m := blobsDiffer("device buffer", a.Buffers, b.Buffers); m != "" {
		return c05Pair{c05Mem, pre + m}
	}
	if m := blobsDiffer("output", a.Outputs, b.Outputs); m != "" {
		return c05Pair{c05Mem, pre + m}
	}

	switch {
	case a.NumCUs != b.NumCUs:
		return c05Pair{c05Insts, fmt.Sprintf("%scompute units %d vs %d", pre, a.NumCUs, b.NumCUs)}
	case len(a.Wfs) != len(b.Wfs):
		return c05Pair{c05Insts, fmt.Sprintf("%swavefronts executed %d vs %d", pre, len(a.Wfs), len(b.Wfs))}
	case a.InstCount != b.InstCount:
		return c05Pair{c05Insts, fmt.Sprintf("%sinstructions executed %d vs %d", pre, a.InstCount, b.InstCount)}
	}
	pc, place := 0, 0
	first := ""
	for i := range a.Wfs {
		x, y := a.Wfs[i], b.Wfs[i]
		switch {
		case x.Key != y.Key:
			pc++
			if first == "" {
				first = fmt.Sprintf("wavefront #%d is %s vs %s", i, x.Key, y.Key)
			}
		case x.Count != y.Count || x.Hash != y.Hash:
			pc++
			if first == "" {
				first = fmt.Sprintf("wavefront %s executes %d vs %d instructions (PC-sequence hash %#x vs %#x)", x.Key, x.Count, y.Count, x.Hash, y.Hash)
			}
		case x.CU != y.CU:
			place++
			if first == "" {
				first = fmt.Sprintf("wavefront %s runs on %s vs %s", x.Key, x.CU, y.CU)
			}
		}
	}
	if pc+place > 0 {
		return c05Pair{c05Insts, fmt.Sprintf("%sof %d wavefronts %d execute a different PC sequence and %d (others) run on a different compute unit, i.e. the per-CU instruction counts differ; first: %s", pre, len(a.Wfs), pc, place, first)}
	}

	if len(a.Cmds) != len(b.Cmds) {
		return c05Pair{c05Dur, fmt.Sprintf("%s%d vs %d driver commands", pre, len(a.Cmds), len(b.Cmds))}
	}
	for i := range a.Cmds {
		if a.Cmds[i].Kind != b.Cmds[i].Kind {
			return c05Pair{c05Dur, fmt.Sprintf("%scommand #%d is %s vs %s", pre, i, a.Cmds[i].Kind, b.Cmds[i].Kind)}
		}
	}
	ctr := countersDiffer(a.Counters, b.Counters)
	shiftAt, shifted, maxShift := -1, 0, 0.0
	durAfter := ""
	for i := range a.Cmds {
		x, y := a.Cmds[i], b.Cmds[i]
		ds, dd := math.Abs(x.Start-y.Start) > timeTol, math.Abs(dur(x)-dur(y)) > timeTol
		if ds {
			shifted++
			if sh := math.Abs(x.Start - y.Start); sh > maxShift {
				maxShift = sh
			}
			if shiftAt < 0 {
				shiftAt = i
			}
		}
		if dd {
			if shiftAt < 0 {
				return c05Pair{c05Dur, fmt.Sprintf("%scommand #%d %s starts at %s in both runs (every earlier command has the same start and duration) but takes %s vs %s", pre, i, x.Kind, ns(x.Start), ns(dur(x)), ns(dur(y)))}
			}
			if durAfter == "" {
				durAfter = fmt.Sprintf("command #%d %s takes %s (start %s) vs %s (start %s)", i, x.Kind, ns(dur(x)), ns(x.Start), ns(dur(y)), ns(y.Start))
			}
		}
	}
	if shiftAt < 0 {
		if ctr != "" {
			return c05Pair{c05Counters, pre + "every command has the same start and duration, but " + ctr}
		}
		if math.Abs(a.SimTime-b.SimTime) > timeTol {
			return c05Pair{c05Abs, fmt.Sprintf("%send of simulation (engine time when the event queue ran dry) %s vs %s; all command start times and durations agree", pre, ns(a.SimTime), ns(b.SimTime))}
		}
		return c05Pair{}
	}
	x, y := a.Cmds[shiftAt], b.Cmds[shiftAt]
	head := fmt.Sprintf("%sfirst divergence: command #%d %s starts at %s vs %s (every earlier command has the same start and duration); %d of %d commands start at a different simulated time (largest shift %s); end of simulation %s vs %s",
		pre, shiftAt, x.Kind, ns(x.Start), ns(y.Start), shifted, len(a.Cmds), ns(maxShift), ns(a.SimTime), ns(b.SimTime))
	if durAfter == "" && ctr == "" {
		return c05Pair{c05Abs, head + "; every command takes the same time and every counter agrees"}
	}
	m := head + "; AFTER the shift"
	if durAfter != "" {
		m += ": " + durAfter
	}
	if ctr != "" {
		m += "; " + ctr
	}
	return c05Pair{c05After, m}
}

func countersDiffer(a, b []Counter) string {
	if len(a) != len(b) {
		m := fmt.Sprintf("%d vs %d counters", len(a), len(b))
		bn := map[string]bool{}
		for _, y := range b {
			bn[y.Name] = true
		}
		for _, x := range a {
			if !bn[x.Name] {
				return m + "; only in the first: " + x.Name
			}
		}
		return m
	}
	n := 0
	first := ""
	for i := range a {
		x, y := a[i], b[i]
		d := ""
		switch {
		case x.Name != y.Name:
			d = fmt.Sprintf("counter #%d is %s vs %s", i, x.Name, y.Name)
		case x.Time:
			if math.Abs(x.Value-y.Value) > timeTol+1e-9*math.Abs(x.Value) {
				d = fmt.Sprintf("%s = %s vs %s", x.Name, ns(x.Value), ns(y.Value))
			}
		case x.Value != y.Value:
			d = fmt.Sprintf("%s = %g vs %g", x.Name, x.Value, y.Value)
		}
		if d != "" {
			n++
			// a count is more telling than an accumulated time
			if first == "" || (strings.Contains(first, "/time/") && !x.Time) {
				first = d
			}
		}
	}
	if n == 0 {
		return ""
	}
	return fmt.Sprintf("%d of %d counters differ, e.g. %s", n, len(a), first)
}

// c05Verdict is the judgement of one case from its repetitions.
type c05Verdict struct {
	Kind  string // identical | differs | outcome-differs | same-failure | undecided
	Class string // for differs
	Msg   string
	Pairs int // pairs of runs compared
	Clean int // pairs without a start shift (durations and counters fully compared)
}

func c05Judge(c Case, procs []int, outs []Outcome) c05Verdict {
	label := func(i int) string { return fmt.Sprintf("run %d (GOMAXPROCS=%d)", i+1, procs[i%len(procs)]) }
	ok, bad := 0, 0
	for _, o := range outs {
		switch o.Status {
		case "ok":
			ok++
		case "", "capped", "infra", "lostwakeup":
			return c05Verdict{Kind: "undecided", Msg: fmt.Sprintf("%s %s", o.Status, o.Symptom)}
		default:
			bad++
		}
	}
	if bad > 0 {
		var l []string
		same := true
		for i, o := range outs {
			l = append(l, fmt.Sprintf("%s: %s %s (stage %s)", label(i), o.Status, o.Symptom, o.Stage))
			if o.Status != outs[0].Status || o.Symptom != outs[0].Symptom {
				same = false
			}
		}
		if same {
			return c05Verdict{Kind: "same-failure", Msg: outs[0].Status + " " + outs[0].Symptom}
		}
		msg := strings.Join(l, "\n")
		for _, o := range outs {
			if o.Status != "ok" {
				msg += "\n" + o.Detail
				break
			}
		}
		return c05Verdict{Kind: "outcome-differs", Msg: msg}
	}
	found := map[string]string{}
	v := c05Verdict{Kind: "identical"}
	for i := 0; i < len(outs); i++ {
		for j := i + 1; j < len(outs); j++ {
			p := c05Compare(label(i), label(j), outs[i].Res, outs[j].Res)
			v.Pairs++
			if p.Class != c05Abs && p.Class != c05After {
				v.Clean++
			}
			if p.Class != "" && found[p.Class] == "" {
				found[p.Class] = p.Msg
			}
		}
	}
	for _, cl := range c05Classes {
		if m := found[cl]; m != "" {
			for _, c2 := range c05Classes {
				if c2 != cl && found[c2] != "" {
					m += "\nanother pair of runs differs in " + c2 + ": " + found[c2]
				}
			}
			v.Kind, v.Class, v.Msg = "differs", cl, m
			return v
		}
	}
	return v
}

func c05Sig(class string, c Case) string {
	return "platform-repeat/differs=" + class + "/" + c.Class()
}

// RunC05Repeat is the platform repeat-run part of C05.
func RunC05Repeat(r *harness.Run) {
	if r.Replay != "" {
		replayC05Rep(r)
		return
	}
	t0 := time.Now()
	m := LoadMatrix()
	cases := m.C05RepCases(r.Thorough())
	if f := os.Getenv("C05REP_ONLY"); f != "" { // development aid
		var l []Case
		for _, c := range cases {
			if strings.Contains(c.Name(), f) {
				l = append(l, c)
			}
		}
		cases = l
	}
	cap := 5 * time.Minute
	if r.Thorough() {
		cap = 15 * time.Minute
	}
	outs, st := c05RunAll(cases, C05Procs, runtime.NumCPU(), cap, r.Deadline())
	CleanScratch()

	perClass := map[string]int{}
	perPlatform := map[string]int{}
	identical, compared, undecided, sameFailure, outcomeDiffers := 0, 0, 0, 0, 0
	undecidedNames, failing := []string{}, []string{}
	var insts, wfs, cmds, ctrs, bytesCmp int64
	pairs, cleanPairs := 0, 0
	for i, c := range cases {
		v := c05Judge(c, C05Procs, outs[i])
		if os.Getenv("C05REP_VERBOSE") != "" {
			w := 0.0
			for _, o := range outs[i] {
				w += o.WallS
			}
			fmt.Printf("  %-70s %-16s %s (%.1fs for %d runs)\n", c.Name(), v.Kind, v.Class, w, len(outs[i]))
		}
		switch v.Kind {
		case "undecided":
			undecided++
			undecidedNames = append(undecidedNames, c.Name()+": "+v.Msg)
		case "same-failure":
			sameFailure++
			failing = append(failing, c.Name()+": "+v.Msg)
		case "outcome-differs":
			outcomeDiffers++
			r.Report("platform-repeat/run-outcome-differs/"+c.Class(),
				fmt.Sprintf("%s: the same program on the same inputs and platform configuration ends differently in %d separate processes\n%s", c.Name(), len(C05Procs), v.Msg),
				C05Rep{Kind: "c05rep", Case: c, Procs: C05Procs, Class: "run-outcome"})
		case "identical", "differs":
			compared++
			pairs += v.Pairs
			cleanPairs += v.Clean
			perPlatform[c.Platform()+"/"+c.Arch+"/"+c.GPUSet()]++
			res := outs[i][0].Res
			insts += int64(res.InstCount)
			wfs += int64(len(res.Wfs))
			cmds += int64(len(res.Cmds))
			ctrs += int64(len(res.Counters))
			for _, b := range res.Buffers {
				bytesCmp += int64(len(b.Data))
			}
			if v.Kind == "identical" {
				identical++
				if identical%17 == 1 {
					r.Sample(map[string]any{"case": c.Name(), "processes": len(C05Procs), "gomaxprocs": C05Procs, "device_buffers": len(res.Buffers), "wavefronts": len(res.Wfs),
						"instructions": res.InstCount, "driver_commands": len(res.Cmds), "counters": len(res.Counters), "end_of_simulation_s": res.SimTime,
						"verdict": "identical in every observable, absolute times included"})
				}
				continue
			}
			perClass[v.Class]++
			r.Report(c05Sig(v.Class, c), fmt.Sprintf("%s: %d runs of the same program on the same inputs and platform configuration, each in its own process (GOMAXPROCS %v), differ in: %s\n%s",
				c.Name(), len(C05Procs), C05Procs, v.Class, v.Msg), C05Rep{Kind: "c05rep", Case: c, Procs: C05Procs, Class: v.Class})
			if perClass[v.Class] == 1 {
				r.Sample(map[string]any{"case": c.Name(), "differs": v.Class, "detail": firstN(v.Msg, 600)})
			}
		}
	}
	r.Cov["label"] = c05Label
	r.Cov["cases"] = len(cases)
	r.Cov["runs"] = st.Runs
	r.Cov["processes_per_case"] = len(C05Procs)
	r.Cov["gomaxprocs"] = C05Procs
	r.Cov["cases_compared"] = compared
	r.Cov["cases_identical_in_everything"] = identical
	r.Cov["cases_differing_by_class"] = perClass
	r.Cov["cases_compared_by_platform"] = perPlatform
	r.Cov["pairs_of_runs_compared"] = pairs
	r.Cov["pairs_without_start_shift"] = cleanPairs
	r.Cov["pairs_note"] = "memory, executed instructions and placement are compared in every pair; durations and counters decide only in pairs without a start shift (after a shift the two runs are differently phased simulations, see the listed C05 finding)"
	r.Cov["cases_run_outcome_differs"] = outcomeDiffers
	r.Cov["cases_failing_the_same_way_in_every_run"] = failing
	r.Cov["cases_undecided"] = undecidedNames
	r.Cov["runs_not_started_deadline"] = st.NotStarted
	r.Cov["driver_races_not_judged_here"] = st.DriverRaces
	r.Cov["runs_repeated_after_infrastructure_failure"] = st.InfraRetry
	r.Cov["compared_per_run"] = map[string]any{"instructions": insts, "wavefronts": wfs, "driver_commands": cmds, "counters": ctrs, "device_buffer_bytes": bytesCmp}
	r.Cov["slowest_run"] = fmt.Sprintf("%s %.1fs", st.Slowest, st.SlowestS)
	r.Cov["worker_wall_seconds_total"] = st.CPUSeconds
	r.Cov["wall_s"] = time.Since(t0).Seconds()
	r.Cov["complete"] = undecided == 0 && st.NotStarted == 0
	r.Cov["rule"] = "one case = one shipped workload at C01's smallest size on one platform (emulation gcn3/cdna3, timing r9nano/mi300a with the shipped parameters; 1 GPU, plus 2-GPU plain and unified timing cases), run in 3 separate worker processes with GOMAXPROCS 1, 3 and 16; compared across the runs, in this order: every live device buffer and the workload's host-side outputs byte for byte; per wavefront (launch, work-group id, wavefront) the executed PC sequence, its length and the compute unit it ran on; then the simulated times in command order, the first divergence deciding: per driver command its kind, simulated start time and duration (kernel times included); task counts, step counts (cache/TLB hits and misses) and accumulated task times of every cache, TLB, DRAM controller, RDMA engine and command processor; the end of simulation. A pair whose first divergence is a command START time (the listed C05 defect) is reported as absolute-times-only, or durations-after-start-shift when later durations/counters differ too"
	r.Assume = append(r.Assume,
		"platform repeat-run part: "+c05Label,
		"platform repeat-run part: a run that ends in one of the driver's host-thread races (lost wake-up, engine hand-off; C12's subject, recognised structurally by the worker) is repeated and only counted; runs killed by the cap timer or by the operating system leave the case undecided",
		"platform repeat-run part: inputs come from math/rand seeded identically in every worker (GODEBUG=randseednop=0); the akita recorder writes its sqlite file into a private scratch directory; monitoring is off",
	)
	fmt.Printf("C05 platform repeat runs: %d cases x %d processes (%d runs), %d compared, %d identical in everything, differing by class %v, %d run-outcome-differs, %d failing the same way every time, %d undecided, %.0fs\n",
		len(cases), len(C05Procs), st.Runs, compared, identical, perClass, outcomeDiffers, sameFailure, undecided, time.Since(t0).Seconds())
}

func firstN(s string, n int) string {
	if len(s) > n {
		return s[:n] + "…"
	}
	return s
}

// replayC05Rep re-runs one case 3+3 times (two rounds of the GOMAXPROCS
// alphabet) and reports whether a difference shows again. Sampling: a
// difference that does not show in this sample is not refuted.
func replayC05Rep(r *harness.Run) {
	data, err := os.ReadFile(r.Replay)
	if err != nil {
		fmt.Println("INFRASTRUCTURE ERROR:", err)
		os.Exit(2)
	}
	var f struct {
		Signature string `json:"signature"`
		Case      C05Rep `json:"case"`
	}
	if json.Unmarshal(data, &f) != nil || f.Case.Kind != "c05rep" {
		fmt.Println("INFRASTRUCTURE ERROR: not a platform repeat-run replay file")
		os.Exit(2)
	}
	procs := f.Case.Procs
	if len(procs) == 0 {
		procs = C05Procs
	}
	procs = append(append([]int{}, procs...), procs...)
	c := f.Case.Case
	fmt.Printf("replay of %s: %d runs of %s in separate processes, GOMAXPROCS %v (sampling)\n", f.Signature, len(procs), c.Name(), procs)
	outs, st := c05RunAll([]Case{c}, procs, 3, 15*time.Minute, time.Now().Add(time.Hour))
	CleanScratch()
	for i, o := range outs[0] {
		line := fmt.Sprintf("  run %d GOMAXPROCS=%d: %s %s", i+1, procs[i], o.Status, o.Symptom)
		if o.Res != nil {
			line += fmt.Sprintf(" end of simulation %s, %d commands, %d instructions", ns(o.Res.SimTime), len(o.Res.Cmds), o.Res.InstCount)
			if os.Getenv("C05REP_VERBOSE") != "" {
				for k, cm := range o.Res.Cmds {
					line += fmt.Sprintf("\n      #%d %-36s start %s duration %s", k, cm.Kind, ns(cm.Start), ns(dur(cm)))
				}
			}
		}
		fmt.Println(line)
	}
	for _, s := range st.DriverRaces {
		fmt.Println("  driver race (not judged here, run repeated):", s)
	}
	v := c05Judge(c, procs, outs[0])
	switch v.Kind {
	case "undecided":
		fmt.Println("INFRASTRUCTURE ERROR: replay runs did not complete:", v.Msg)
		os.Exit(2)
	case "outcome-differs":
		fmt.Printf("VIOLATION property=%s replay=%s\n  signature: platform-repeat/run-outcome-differs/%s\n%s\n", r.ID, r.Replay, c.Class(), v.Msg)
		os.Exit(1)
	case "differs":
		fmt.Printf("VIOLATION property=%s replay=%s\n  signature: %s\n%s\n", r.ID, r.Replay, c05Sig(v.Class, c), v.Msg)
		os.Exit(1)
	case "same-failure":
		fmt.Printf("replay: every run fails the same way (%s); no difference between the runs\n", v.Msg)
		os.Exit(0)
	}
	fmt.Printf("replay: difference not observed in this sample of %d runs (all observables identical, absolute times included)\n", len(procs))
	os.Exit(0)
}
