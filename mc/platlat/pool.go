package platlat

import (
	"fmt"
	"os"
	"runtime"
	"sort"
	"sync"
	"time"
)

// PoolStats summarises a RunAll.
type PoolStats struct {
	Executed      int
	RerunAlone    int
	Flaky         []string // behaved differently in the pool and alone, not explained
	LostWakeups   []string // pool run ended in a driver host-thread race (lost wake-up / engine hand-off); decided by an alone run
	LoadVictims   []string // pool: infra (killed under load); alone 3x stable
	Capped        []string
	Infra         []string
	NotStarted    int // cut by the deadline
	WallS         float64
	CPUSeconds    float64
	SlowestS      float64
	SlowestCase   string
	UnconfirmedNo int
}

// cost orders cases so that the expensive ones start first (no long tail).
func cost(c Case) float64 {
	if c.IsRef {
		return 1e12
	}
	k := 1.0
	if c.Mode == "timing" {
		k = 10
		if c.GPUType == "mi300a" {
			k = 16
		}
	}
	n := 0
	for _, g := range c.GPUs {
		if g > n {
			n = g
		}
	}
	k *= float64(n)
	if w := Lookup(c.Workload); w != nil && w.Cost != nil {
		k *= w.Cost(c.Params)
	}
	return k
}

// Equiv, when set, decides whether two outcomes of the same case count as the
// same verdict (default: same status and symptom).
var Equiv func(a, b Outcome) bool

// RunAll executes every case in its own worker process, `workers` at a time.
// A case whose worker did not finish with status ok is re-run ALONE (nothing
// else running) after the pool has drained; the verdict handed to `done` is
// the one of the alone run. Cases that behave differently alone are listed as
// flaky (and reported by the caller as non-exhaustive, never as a verdict).
// deadline only stops starting new cases.
func RunAll(cases []Case, workers int, cap time.Duration, deadline time.Time, done func(i int, o Outcome)) PoolStats {
	t0 := time.Now()
	same := func(a, b Outcome) bool {
		if Equiv != nil {
			return Equiv(a, b)
		}
		return a.Status == b.Status && a.Symptom == b.Symptom
	}
	if workers <= 0 {
		workers = runtime.NumCPU()
	}
	order := make([]int, len(cases))
	for i := range order {
		order[i] = i
	}
	sort.SliceStable(order, func(a, b int) bool { return cost(cases[order[a]]) > cost(cases[order[b]]) })

	var st PoolStats
	var mu sync.Mutex
	var retry []int
	first := map[int]Outcome{}
	next := 0
	var wg sync.WaitGroup
	for w := 0; w < workers; w++ {
		wg.Add(1)
		go func() {
			defer wg.Done()
			for {
				mu.Lock()
				if next >= len(order) {
					mu.Unlock()
					return
				}
				if time.Now().After(deadline) {
					st.NotStarted += len(order) - next
					next = len(order)
					mu.Unlock()
					return
				}
				i := order[next]
				next++
				mu.Unlock()
				o := Exec(cases[i], cap)
				mu.Lock()
				st.Executed++
				st.CPUSeconds += o.WallS
				if o.WallS > st.SlowestS {
					st.SlowestS, st.SlowestCase = o.WallS, cases[i].Name()
				}
				if o.Status == "ok" {
					mu.Unlock()
					done(i, o)
					continue
				}
				retry = append(retry, i)
				first[i] = o
				mu.Unlock()
			}
		}()
	}
	wg.Wait()

	sort.Ints(retry)
	for _, i := range retry {
		f := first[i]
		if time.Now().After(deadline) {
			// not confirmed alone: do not classify
			st.UnconfirmedNo++
			st.Infra = append(st.Infra, "unconfirmed (deadline before the alone re-run): "+cases[i].Name()+" "+f.Status+" "+f.Symptom)
			continue
		}
		// Two host-thread races of the driver (property C12's subject) can end a run
		// in a state that says nothing about the kernels' results: the lost wake-up
		// (every queue empty, host still in Wait()) and the runAsync/runEngine
		// hand-off (events pending, nobody runs the engine). The worker recognises
		// both structurally (status "lostwakeup"); such a run is repeated (up to 5
		// alone attempts) and the first verdict that is not a driver race decides.
		// A hang of the simulated hardware looks different (event queue empty,
		// commands outstanding) and is deterministic.
		o := Exec(cases[i], cap)
		o.Reruns = 1
		st.RerunAlone++
		st.CPUSeconds += o.WallS
		for k := 0; k < 4 && o.Status == "lostwakeup"; k++ {
			o = Exec(cases[i], cap)
			o.Reruns++
			st.RerunAlone++
			st.CPUSeconds += o.WallS
		}
		if f.Status == "lostwakeup" {
			st.LostWakeups = append(st.LostWakeups, fmt.Sprintf("%s: pool %s, alone %s", cases[i].Name(), f.Symptom, o.Status))
		} else if !same(o, f) {
			// behaved differently alone: two more alone runs must agree with the first alone run
			stable := true
			for k := 0; k < 2; k++ {
				o2 := Exec(cases[i], cap)
				st.RerunAlone++
				st.CPUSeconds += o2.WallS
				o.Reruns++
				if !same(o2, o) {
					stable = false
				}
			}
			desc := fmt.Sprintf("%s: pool %s/%s, alone(3x) %s/%s", cases[i].Name(), f.Status, f.Symptom, o.Status, o.Symptom)
			if stable && f.Status == "infra" {
				st.LoadVictims = append(st.LoadVictims, desc) // e.g. the OOM killer under load
			} else {
				st.Flaky = append(st.Flaky, desc)
			}
		}
		switch o.Status {
		case "capped":
			st.Capped = append(st.Capped, cases[i].Name())
		case "infra":
			st.Infra = append(st.Infra, cases[i].Name()+": "+firstLine(o.Detail))
		}
		done(i, o)
	}
	st.WallS = time.Since(t0).Seconds()
	return st
}

func firstLine(s string) string {
	for i, c := range s {
		if c == '\n' && i > 0 {
			return s[:i]
		}
	}
	return s
}

// CleanScratch removes leftovers of killed runs of this process.
func CleanScratch() {
	ents, _ := os.ReadDir(scratchRoot())
	prefix := fmt.Sprintf("platlat-%d-", os.Getpid())
	for _, e := range ents {
		if len(e.Name()) >= len(prefix) && e.Name()[:len(prefix)] == prefix {
			os.RemoveAll(scratchRoot() + "/" + e.Name())
		}
	}
}
