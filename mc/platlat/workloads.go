package platlat

import (
	"github.com/sarchlab/mgpusim/v4/amd/benchmarks/dnn/training_benchmarks/xor"
	"fmt"
	"math"
	"sort"

	"github.com/sarchlab/mgpusim/v4/amd/arch"
	"github.com/sarchlab/mgpusim/v4/amd/benchmarks"
	"github.com/sarchlab/mgpusim/v4/amd/benchmarks/amdappsdk/bitonicsort"
	"github.com/sarchlab/mgpusim/v4/amd/benchmarks/amdappsdk/fastwalshtransform"
	"github.com/sarchlab/mgpusim/v4/amd/benchmarks/amdappsdk/floydwarshall"
	"github.com/sarchlab/mgpusim/v4/amd/benchmarks/amdappsdk/matrixmultiplication"
	"github.com/sarchlab/mgpusim/v4/amd/benchmarks/amdappsdk/matrixtranspose"
	"github.com/sarchlab/mgpusim/v4/amd/benchmarks/amdappsdk/nbody"
	"github.com/sarchlab/mgpusim/v4/amd/benchmarks/amdappsdk/simpleconvolution"
	"github.com/sarchlab/mgpusim/v4/amd/benchmarks/amdappsdk/vectoradd"
	"github.com/sarchlab/mgpusim/v4/amd/benchmarks/dnn/layer_benchmarks/conv2d"
	"github.com/sarchlab/mgpusim/v4/amd/benchmarks/dnn/layer_benchmarks/im2col"
	"github.com/sarchlab/mgpusim/v4/amd/benchmarks/dnn/layer_benchmarks/relu"
	"github.com/sarchlab/mgpusim/v4/amd/benchmarks/heteromark/aes"
	"github.com/sarchlab/mgpusim/v4/amd/benchmarks/heteromark/fir"
	"github.com/sarchlab/mgpusim/v4/amd/benchmarks/heteromark/kmeans"
	"github.com/sarchlab/mgpusim/v4/amd/benchmarks/heteromark/pagerank"
	"github.com/sarchlab/mgpusim/v4/amd/benchmarks/polybench/atax"
	"github.com/sarchlab/mgpusim/v4/amd/benchmarks/polybench/bicg"
	"github.com/sarchlab/mgpusim/v4/amd/benchmarks/rodinia/nw"
	"github.com/sarchlab/mgpusim/v4/amd/benchmarks/shoc/bfs"
	"github.com/sarchlab/mgpusim/v4/amd/benchmarks/shoc/fft"
	"github.com/sarchlab/mgpusim/v4/amd/benchmarks/shoc/spmv"
	"github.com/sarchlab/mgpusim/v4/amd/benchmarks/shoc/stencil2d"
	"github.com/sarchlab/mgpusim/v4/amd/driver"
)

// Workload describes one shipped workload to the lattice. Size alphabets and
// admissibility live in c01_matrix.json (embedded), not here.
type Workload struct {
	Name string
	// Outputs are the struct fields (exported or not, dotted paths allowed)
	// that hold the result: driver.Ptr fields are device buffers (read back
	// with MemCopyD2H), slices are host copies the workload made itself with
	// MemCopyD2H during Run(). Empty = compare every live device buffer.
	Outputs []string
	// Integer output (bit-exact by nature) or float output.
	Integer bool
	// Tol is the workload's own Verify() tolerance (absolute), used by C18a
	// only where the instruction sequence per element may differ.
	Tol float64
	New func(d *driver.Driver, a arch.Type, p map[string]int) benchmarks.Benchmark
	// Strong is an additional oracle run after Verify() where the workload's
	// own Verify() provably looks at only part of the result.
	Strong func(b benchmarks.Benchmark) error
	// Cost estimates relative run time from the parameters (scheduling only).
	Cost func(p map[string]int) float64
}

func def(p map[string]int, k string, d int) int {
	if v, ok := p[k]; ok {
		return v
	}
	return d
}

// noVerify wraps a workload whose Verify() is not implemented but whose operators verify themselves against the
// CPU operators while it runs (GPUOperator.EnableVerification): a mismatch panics in Run().
type noVerify struct{ benchmarks.Benchmark }

func (noVerify) Verify() {}

var registry = []*Workload{
	{
		Name: "synthetic-redistribute", Outputs: []string{"out"}, Integer: true,
		New: func(d *driver.Driver, a arch.Type, p map[string]int) benchmarks.Benchmark { return newReupload(d, p) },
	},
	{
		Name: "xor", Outputs: nil, Tol: 1e-2,
		New: func(d *driver.Driver, a arch.Type, p map[string]int) benchmarks.Benchmark { return noVerify{xor.NewBenchmark(d)} },
		Cost: func(p map[string]int) float64 { return 10 },
	},
	{
		Name: "synthetic-copy-overlaps-kernel", Outputs: []string{"out1", "out2"}, Integer: true,
		New: func(d *driver.Driver, a arch.Type, p map[string]int) benchmarks.Benchmark { return newCopyOverlapsKernel(d, p) },
	},
	{
		Name: "synthetic-load-store-vmcnt1", Outputs: []string{"out", "out2"}, Integer: true,
		New: func(d *driver.Driver, a arch.Type, p map[string]int) benchmarks.Benchmark { return newLoadStoreVmcnt1(d, p) },
	},
	{
		Name: "synthetic-3d-workgroup", Outputs: []string{"out"}, Integer: true,
		New: func(d *driver.Driver, a arch.Type, p map[string]int) benchmarks.Benchmark { return newWorkItemIDs3D(d, p) },
	},
	{
		Name: "synthetic-scalar-reupload", Outputs: []string{"out"}, Integer: true,
		New: func(d *driver.Driver, a arch.Type, p map[string]int) benchmarks.Benchmark { return newScalarReupload(d, p) },
	},
	{
		Name: "synthetic-reupload", Outputs: []string{"out"}, Integer: true,
		New: func(d *driver.Driver, a arch.Type, p map[string]int) benchmarks.Benchmark { return newReupload(d, p) },
	},
	{
		Name: "vectoradd", Outputs: []string{"dA"}, Tol: 0,
		New: func(d *driver.Driver, a arch.Type, p map[string]int) benchmarks.Benchmark {
			b := vectoradd.NewBenchmark(d)
			b.Width = uint32(p["width"])
			b.Height = uint32(p["height"])
			return b
		},
	},
	{
		Name: "fir", Outputs: []string{"gOutputData"}, Tol: 1e-5,
		New: func(d *driver.Driver, a arch.Type, p map[string]int) benchmarks.Benchmark {
			b := fir.NewBenchmark(d)
			b.Arch = a
			b.Length = p["length"]
			b.NumTapsParam = def(p, "taps", 16)
			return b
		},
	},
	{
		Name: "aes", Outputs: []string{"gInput"}, Integer: true,
		New: func(d *driver.Driver, a arch.Type, p map[string]int) benchmarks.Benchmark {
			b := aes.NewBenchmark(d)
			b.Arch = a
			b.Length = p["length"]
			return b
		},
	},
	{
		Name: "kmeans", Outputs: []string{"dMembership", "hClusters"}, Tol: 0,
		New: func(d *driver.Driver, a arch.Type, p map[string]int) benchmarks.Benchmark {
			b := kmeans.NewBenchmark(d)
			b.Arch = a
			b.NumPoints = p["points"]
			b.NumClusters = p["clusters"]
			b.NumFeatures = p["features"]
			b.MaxIter = p["maxiter"]
			return b
		},
		Cost: func(p map[string]int) float64 { return 1 + float64(p["maxiter"]) },
	},
	{
		Name: "pagerank", Outputs: []string{"hPageRank"}, Tol: 1e-5,
		New: func(d *driver.Driver, a arch.Type, p map[string]int) benchmarks.Benchmark {
			b := pagerank.NewBenchmark(d)
			b.Arch = a
			b.NumNodes = uint32(p["node"])
			b.NumConnections = uint32(p["conn"])
			b.MaxIterations = uint32(p["iter"])
			return b
		},
	},
	{
		Name: "matrixmultiplication", Outputs: []string{"MatrixC.Data"}, Tol: 1e-3,
		New: func(d *driver.Driver, a arch.Type, p map[string]int) benchmarks.Benchmark {
			b := matrixmultiplication.NewBenchmark(d)
			b.Arch = a
			b.X, b.Y, b.Z = uint32(p["x"]), uint32(p["y"]), uint32(p["z"])
			return b
		},
		// Verify() (benchmark.go:83-84) increments i in both loops, so it only
		// compares row 0 of C. The strong oracle is the same comparison (same
		// CPU reference, same tolerance 1e-3) over the whole matrix.
		Strong: func(bb benchmarks.Benchmark) error {
			b := bb.(*matrixmultiplication.Benchmark)
			m := matrixmultiplication.CPUMatrixMultiplier{}
			ref := m.Multiply(b.MatrixA, b.MatrixB)
			bad, first := 0, -1
			for i := range ref.Data {
				if math.Abs(float64(ref.Data[i]-b.MatrixC.Data[i])) > 1e-3 {
					if first < 0 {
						first = i
					}
					bad++
				}
			}
			if bad > 0 {
				return fmt.Errorf("full-matrix comparison: %d of %d elements of C differ from the CPU reference by more than 1e-3; first at row %d col %d: expected %f got %f",
					bad, len(ref.Data), first/int(ref.Width), first%int(ref.Width), ref.Data[first], b.MatrixC.Data[first])
			}
			return nil
		},
		Cost: func(p map[string]int) float64 { return 1 + float64(p["x"]*p["y"]*p["z"])/(64*64*64) },
	},
	{
		Name: "matrixtranspose", Outputs: []string{"dOutputData"}, Integer: true,
		New: func(d *driver.Driver, a arch.Type, p map[string]int) benchmarks.Benchmark {
			b := matrixtranspose.NewBenchmark(d)
			b.Arch = a
			b.Width = p["width"]
			return b
		},
		Cost: func(p map[string]int) float64 { return 1 + float64(p["width"]*p["width"])/(256*256) },
	},
	{
		Name: "nbody", Outputs: []string{"pos"}, Tol: 1e-3,
		New: func(d *driver.Driver, a arch.Type, p map[string]int) benchmarks.Benchmark {
			b := nbody.NewBenchmark(d)
			b.Arch = a
			b.NumParticles = int32(p["particles"])
			b.NumIterations = int32(p["iter"])
			return b
		},
		Cost: func(p map[string]int) float64 {
			return 1 + float64(p["iter"])*float64(p["particles"]*p["particles"])/(256*256)
		},
	},
	{
		Name: "simpleconvolution", Outputs: []string{"dOutputData"}, Integer: true,
		New: func(d *driver.Driver, a arch.Type, p map[string]int) benchmarks.Benchmark {
			b := simpleconvolution.NewBenchmark(d)
			b.Arch = a
			b.Width = uint32(p["width"])
			b.Height = uint32(p["height"])
			b.SetMaskSize(uint32(p["mask"]))
			return b
		},
		Cost: func(p map[string]int) float64 { return 1 + float64(p["width"]*p["height"])/(64*64) },
	},
	{
		Name: "bitonicsort", Outputs: []string{"gInputData"}, Integer: true,
		New: func(d *driver.Driver, a arch.Type, p map[string]int) benchmarks.Benchmark {
			b := bitonicsort.NewBenchmark(d)
			b.Arch = a
			b.Length = p["length"]
			b.OrderAscending = def(p, "asc", 1) != 0
			return b
		},
		// Verify() only checks monotonic order; the strong oracle also checks
		// that the output is a permutation of the input (i.e. equals the sorted
		// input).
		Strong: func(bb benchmarks.Benchmark) error {
			in, _ := fieldOf(bb, "inputData")
			out, _ := fieldOf(bb, "outputData")
			ref := append([]uint32{}, in.Interface().([]uint32)...)
			got := out.Interface().([]uint32)
			asc := bb.(*bitonicsort.Benchmark).OrderAscending
			sort.Slice(ref, func(i, j int) bool {
				if asc {
					return ref[i] < ref[j]
				}
				return ref[i] > ref[j]
			})
			for i := range ref {
				if ref[i] != got[i] {
					return fmt.Errorf("output is not the sorted input: position %d expected %d got %d", i, ref[i], got[i])
				}
			}
			return nil
		},
		Cost: func(p map[string]int) float64 {
			s := math.Log2(float64(p["length"]))
			return 1 + s*(s+1)/20
		},
	},
	{
		Name: "fastwalshtransform", Outputs: []string{"dInputArray"}, Tol: 0,
		New: func(d *driver.Driver, a arch.Type, p map[string]int) benchmarks.Benchmark {
			b := fastwalshtransform.NewBenchmark(d)
			b.Arch = a
			b.Length = uint32(p["length"])
			return b
		},
	},
	{
		Name: "floydwarshall", Outputs: []string{"dOutputPathMatrix", "dOutputPathDistanceMatrix"}, Integer: true,
		New: func(d *driver.Driver, a arch.Type, p map[string]int) benchmarks.Benchmark {
			b := floydwarshall.NewBenchmark(d)
			b.Arch = a
			b.NumNodes = uint32(p["node"])
			b.NumIterations = uint32(def(p, "iter", 0))
			return b
		},
		Cost: func(p map[string]int) float64 { return 1 + float64(p["node"])/8 },
	},
	{
		Name: "atax", Outputs: []string{"dY", "dTmp"}, Tol: 0,
		New: func(d *driver.Driver, a arch.Type, p map[string]int) benchmarks.Benchmark {
			b := atax.NewBenchmark(d)
			b.Arch = a
			b.NX, b.NY = p["nx"], p["ny"]
			return b
		},
	},
	{
		Name: "bicg", Outputs: []string{"dS", "dQ"}, Tol: 0,
		New: func(d *driver.Driver, a arch.Type, p map[string]int) benchmarks.Benchmark {
			b := bicg.NewBenchmark(d)
			b.Arch = a
			b.NX, b.NY = p["nx"], p["ny"]
			return b
		},
	},
	{
		Name: "nw", Outputs: []string{"dInputItemSets"}, Integer: true,
		New: func(d *driver.Driver, a arch.Type, p map[string]int) benchmarks.Benchmark {
			b := nw.NewBenchmark(d)
			b.Arch = a
			b.SetLength(p["length"])
			if v, ok := p["penalty"]; ok {
				b.SetPenalty(v)
			}
			return b
		},
		Cost: func(p map[string]int) float64 { return 1 + float64(p["length"])/64 },
	},
	{
		Name: "bfs", Outputs: []string{"hCost"}, Integer: true,
		New: func(d *driver.Driver, a arch.Type, p map[string]int) benchmarks.Benchmark {
			b := bfs.NewBenchmark(d)
			b.Arch = a
			b.NumNode = p["node"]
			b.Degree = def(p, "degree", 3)
			b.MaxDepth = def(p, "depth", math.MaxInt32) // samples/bfs/main.go:31 maps 0 to MaxInt32
			return b
		},
		Cost: func(p map[string]int) float64 { return 2 + float64(p["node"])/256 },
	},
	{
		Name: "fft", Outputs: []string{"dSource"}, Tol: 0,
		New: func(d *driver.Driver, a arch.Type, p map[string]int) benchmarks.Benchmark {
			b := fft.NewBenchmark(d)
			b.Arch = a
			if v, ok := p["bytes"]; ok {
				b.Bytes = int64(v)
				b.BytesMode = true
			} else {
				b.Bytes = int64(p["mb"])
			}
			b.Passes = int32(def(p, "passes", 1))
			return b
		},
		Cost: func(p map[string]int) float64 {
			return 1 + float64(def(p, "passes", 1))*float64(def(p, "bytes", p["mb"]<<20))/65536
		},
	},
	{
		Name: "spmv", Outputs: []string{"dOutData"}, Tol: 0,
		New: func(d *driver.Driver, a arch.Type, p map[string]int) benchmarks.Benchmark {
			b := spmv.NewBenchmark(d)
			b.Arch = a
			b.Dim = int32(p["dim"])
			b.Sparsity = float64(p["sparsity_permille"]) / 1000
			return b
		},
	},
	{
		Name: "stencil2d", Outputs: []string{"hOutput"}, Tol: 0,
		New: func(d *driver.Driver, a arch.Type, p map[string]int) benchmarks.Benchmark {
			b := stencil2d.NewBenchmark(d)
			b.Arch = a
			b.NumIteration = def(p, "iter", 1)
			b.NumRows = p["row"] + 2 // samples/stencil2d/main.go:22-23
			b.NumCols = p["col"] + 2
			return b
		},
	},
	{
		Name: "relu", Outputs: []string{"gOutputData"}, Tol: 0,
		New: func(d *driver.Driver, a arch.Type, p map[string]int) benchmarks.Benchmark {
			b := relu.NewBenchmark(d)
			b.Arch = a
			b.Length = p["length"]
			return b
		},
	},
	{
		Name: "conv2d", Outputs: nil, Tol: 1e-2,
		New: func(d *driver.Driver, a arch.Type, p map[string]int) benchmarks.Benchmark {
			b := conv2d.NewBenchmark(d)
			b.N, b.C, b.H, b.W = def(p, "n", 1), def(p, "c", 1), p["h"], p["w"]
			b.KernelChannel = def(p, "kc", 3)
			b.KernelHeight, b.KernelWidth = def(p, "kh", def(p, "k", 3)), def(p, "kw", def(p, "k", 3))
			b.PadX, b.PadY = def(p, "pad_x", def(p, "pad", 0)), def(p, "pad_y", def(p, "pad", 0))
			b.StrideX, b.StrideY = def(p, "stride_x", def(p, "stride", 1)), def(p, "stride_y", def(p, "stride", 1))
			b.EnableBackward = def(p, "backward", 0) != 0
			b.Arch = a
			return b
		},
		Cost: func(p map[string]int) float64 { return 3 },
	},
	{
		Name: "im2col", Outputs: nil, Tol: 1e-2,
		New: func(d *driver.Driver, a arch.Type, p map[string]int) benchmarks.Benchmark {
			b := im2col.NewBenchmark(d)
			b.N, b.C, b.H, b.W = def(p, "n", 1), def(p, "c", 1), p["h"], p["w"]
			b.KernelHeight, b.KernelWidth = def(p, "kh", def(p, "k", 3)), def(p, "kw", def(p, "k", 3))
			b.PadX, b.PadY = def(p, "pad_x", def(p, "pad", 0)), def(p, "pad_y", def(p, "pad", 0))
			b.StrideX, b.StrideY = def(p, "stride_x", def(p, "stride", 1)), def(p, "stride_y", def(p, "stride", 1))
			b.DilateX, b.DilateY = def(p, "dilate_x", def(p, "dilate", 1)), def(p, "dilate_y", def(p, "dilate", 1))
			b.Arch = a
			return b
		},
	},
}

// Lookup finds a workload by name.
func Lookup(name string) *Workload {
	for _, w := range registry {
		if w.Name == name {
			return w
		}
	}
	return nil
}

// Workloads lists the registry.
func Workloads() []*Workload { return registry }
