package platlat

import (
	"fmt"
	"sort"
	"strings"
)

// Case is one point of the configuration lattice. It is self-contained and
// JSON-serialisable: it is the replay artefact.
type Case struct {
	Workload string         `json:"workload"`
	Params   map[string]int `json:"params"`
	SizeName string         `json:"size_name,omitempty"` // name of the size-alphabet entry (divisibility class)
	Arch     string         `json:"arch"`                // gcn3 | cdna3
	GPUs     []int          `json:"gpus"`
	Unified  bool           `json:"unified,omitempty"` // unified multi-GPU device over GPUs
	UM       bool           `json:"um,omitempty"`      // unified memory
	Mode     string         `json:"mode"`              // emu | timing
	GPUType  string         `json:"gpu_type,omitempty"`
	Knobs    Knobs          `json:"knobs,omitempty"`
	Parallel bool           `json:"parallel,omitempty"` // akita ParallelEngine instead of the serial engine (what the runner's -parallel does)

	// what the worker has to hand back besides the verdict
	WantOutputs  bool `json:"want_outputs,omitempty"` // the workload's output buffers
	WantBuffers  bool `json:"want_buffers,omitempty"` // every live device buffer
	WantPCs      bool `json:"want_pcs,omitempty"`     // per-wavefront executed PCs
	SkipVerify   bool `json:"skip_verify,omitempty"`
	WantCmds     bool `json:"want_cmds,omitempty"`     // per driver command: kind, simulated start and end time (driver tracing hook)
	WantCounters bool `json:"want_counters,omitempty"` // task / step counts and busy times of the components the runner reports on
	IsRef        bool `json:"is_ref,omitempty"`        // a reference run other cases are compared with: scheduled first

	// WarmRuns: the worker first runs the same program WarmRuns times on platforms of their own in the same process
	// (results discarded), then builds the platform whose results it reports: "repeating a simulation" within one
	// process, so that state that outlives a platform (package-level pools, caches, counters) shows. Not part of Name().
	WarmRuns int `json:"warm_runs,omitempty"`

	// Env is extra environment for the worker process (e.g. GOMAXPROCS=16); it
	// overrides the defaults Exec sets. Not part of Name().
	Env []string `json:"env,omitempty"`
}

func (c Case) paramString() string {
	keys := make([]string, 0, len(c.Params))
	for k := range c.Params {
		keys = append(keys, k)
	}
	sort.Strings(keys)
	var parts []string
	for _, k := range keys {
		parts = append(parts, fmt.Sprintf("%s=%d", k, c.Params[k]))
	}
	return strings.Join(parts, ",")
}

// GPUSet renders the GPU set: g1, g12, g1234, u12, u1234.
func (c Case) GPUSet() string {
	s := "g"
	if c.Unified {
		s = "u"
	}
	for _, g := range c.GPUs {
		s += fmt.Sprint(g)
	}
	return s
}

// Platform renders the mode: emu, timing-r9nano, timing-mi300a[+knobs].
func (c Case) Platform() string {
	par := ""
	if c.Parallel {
		par = "+parallel"
	}
	if c.Mode == "emu" {
		return "emu" + par
	}
	s := "timing-" + c.GPUType
	if c.Knobs != (Knobs{}) {
		s += "[" + c.Knobs.String() + "]"
	}
	return s + par
}

// Name is the canonical, unique name of the lattice point.
func (c Case) Name() string {
	um := ""
	if c.UM {
		um = "/um"
	}
	return fmt.Sprintf("%s/%s/%s/%s(%s)/%s%s", c.Platform(), c.Arch, c.Workload, c.SizeName, c.paramString(), c.GPUSet(), um)
}

// Class is the configuration class used in signatures: everything but the
// concrete numbers.
func (c Case) Class() string {
	um := ""
	if c.UM {
		um = "/um"
	}
	return fmt.Sprintf("%s/%s/%s/%s/%s%s", c.Platform(), c.Arch, c.Workload, c.SizeName, c.GPUSet(), um)
}

// Blob is a named byte string (an output buffer or a device buffer).
type Blob struct {
	Name string
	Data []byte
}

// Result is what a worker writes when the case ran to completion.
type Result struct {
	Stage     string // last stage reached: build|run|verify|capture|done
	SimTime   float64
	Outputs   []Blob
	Buffers   []Blob
	Wfs       []WfTrace
	InstCount int
	NumCUs    int
	// new fields only below (gob: older readers ignore them)
	Cmds     []CmdTime // WantCmds: every driver command in start order
	Counters []Counter // WantCounters: sorted by name
}

// CmdTime is one driver command: its kind (Go type of the command) and the
// simulated times at which the driver started and completed it (End < 0: never
// completed).
type CmdTime struct {
	Kind       string
	Start, End float64
}

// Counter is one named count (tasks, steps) or accumulated simulated time.
type Counter struct {
	Name  string
	Value float64
	Time  bool // Value is a sum of simulated durations in seconds (compared with a tolerance)
}

// Outcome is the parent's view of one executed case.
type Outcome struct {
	Case     Case
	Status   string // ok | fail | hang | capped | infra
	Stage    string // stage in which the worker died (fail/hang)
	Symptom  string // short, normalised symptom for signatures
	Detail   string // stderr tail
	ExitCode int
	WallS    float64
	Res      *Result
	Reruns   int
	Races    string // the worker's "WARNING: DATA RACE" blocks (binaries built with -race only)
}
