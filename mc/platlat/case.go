package platlat

import (
	"fmt"
	"sort"
	"strings"
)

// Case is one point of the configuration lattice. It is self-contained and
// JSON-serialisable: it is the replay artefact.
type Case struct {
	Workload string         `json:"workload"`
	Params   map[string]int `json:"params"`
	SizeName string         `json:"size_name,omitempty"` // name of the size-alphabet entry (divisibility class)
	Arch     string         `json:"arch"`                // gcn3 | cdna3
	GPUs     []int          `json:"gpus"`
	Unified  bool           `json:"unified,omitempty"` // unified multi-GPU device over GPUs
	UM       bool           `json:"um,omitempty"`      // unified memory
	Mode     string         `json:"mode"`              // emu | timing
	GPUType  string         `json:"gpu_type,omitempty"`
	Knobs    Knobs          `json:"knobs,omitempty"`

	// what the worker has to hand back besides the verdict
	WantOutputs bool `json:"want_outputs,omitempty"` // the workload's output buffers
	WantBuffers bool `json:"want_buffers,omitempty"` // every live device buffer
	WantPCs     bool `json:"want_pcs,omitempty"`     // per-wavefront executed PCs
	SkipVerify  bool `json:"skip_verify,omitempty"`
	IsRef       bool `json:"is_ref,omitempty"` // a reference run other cases are compared with: scheduled first
}

func (c Case) paramString() string {
	keys := make([]string, 0, len(c.Params))
	for k := range c.Params {
		keys = append(keys, k)
	}
	sort.Strings(keys)
	var parts []string
	for _, k := range keys {
		parts = append(parts, fmt.Sprintf("%s=%d", k, c.Params[k]))
	}
	return strings.Join(parts, ",")
}

// GPUSet renders the GPU set: g1, g12, g1234, u12, u1234.
func (c Case) GPUSet() string {
	s := "g"
	if c.Unified {
		s = "u"
	}
	for _, g := range c.GPUs {
		s += fmt.Sprint(g)
	}
	return s
}

// Platform renders the mode: emu, timing-r9nano, timing-mi300a[+knobs].
func (c Case) Platform() string {
	if c.Mode == "emu" {
		return "emu"
	}
	s := "timing-" + c.GPUType
	if c.Knobs != (Knobs{}) {
		s += "[" + c.Knobs.String() + "]"
	}
	return s
}

// Name is the canonical, unique name of the lattice point.
func (c Case) Name() string {
	um := ""
	if c.UM {
		um = "/um"
	}
	return fmt.Sprintf("%s/%s/%s/%s(%s)/%s%s", c.Platform(), c.Arch, c.Workload, c.SizeName, c.paramString(), c.GPUSet(), um)
}

// Class is the configuration class used in signatures: everything but the
// concrete numbers.
func (c Case) Class() string {
	um := ""
	if c.UM {
		um = "/um"
	}
	return fmt.Sprintf("%s/%s/%s/%s/%s%s", c.Platform(), c.Arch, c.Workload, c.SizeName, c.GPUSet(), um)
}

// Blob is a named byte string (an output buffer or a device buffer).
type Blob struct {
	Name string
	Data []byte
}

// Result is what a worker writes when the case ran to completion.
type Result struct {
	Stage     string // last stage reached: build|run|verify|capture|done
	SimTime   float64
	Outputs   []Blob
	Buffers   []Blob
	Wfs       []WfTrace
	InstCount int
	NumCUs    int
}

// Outcome is the parent's view of one executed case.
type Outcome struct {
	Case     Case
	Status   string // ok | fail | hang | capped | infra
	Stage    string // stage in which the worker died (fail/hang)
	Symptom  string // short, normalised symptom for signatures
	Detail   string // stderr tail
	ExitCode int
	WallS    float64
	Res      *Result
	Reruns   int
}
