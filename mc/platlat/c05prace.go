package platlat

import (
	"encoding/json"
	"fmt"
	"os"
	"regexp"
	"runtime"
	"sort"
	"strings"
	"sync"
	"time"

	"verif/mc/harness"
)

// C05 supplementary part "prace" (parallel-engine pass): the clause "with the
// parallel engine the functional results remain identical". The real timing
// platform is built with akita's ParallelEngine exactly as the runner's
// -parallel does (the flag changes nothing but the engine), a shipped workload
// with enough work-groups to keep several compute units busy in the same cycle
// is run free under the Go race detector (the binary is built with -race), and
//
//	(a) every DATA RACE report is turned into a signature
//	    parallel-engine/race/<innermost sarchlab frame A>|<innermost sarchlab frame B>
//	    (order-independent): two same-time event handlers touching one object
//	    without synchronisation is how the parallel engine's results stop being
//	    identical;
//	(b) the final device buffers (and the workload's own Verify()) of the
//	    parallel run are compared with a serial-engine run of the same case.
//
// Sampling, not exhaustive. (a) does not depend on the interleaving in
// practice: the detector flags the unsynchronised pair whenever both handlers
// run in the same cycle. Races that also show with the serial engine
// (application thread vs engine goroutine) are C12's subject and only counted.

// C05Prace is the replay artefact.
type C05Prace struct {
	Kind string `json:"kind"` // "c05prace"
	Case Case   `json:"case"` // the parallel case
	Want string `json:"want"` // the signature seen
	Runs int    `json:"runs"`
}

const c05PraceLabel = "SUPPLEMENTARY, sampling (free runs of the real timing platform on akita's ParallelEngine under the Go race detector, GOMAXPROCS=16): not exhaustive; decides nothing by itself, can only add violations of the clause 'with the parallel engine the functional results remain identical'"

var praceEnv = []string{"GOMAXPROCS=16", "GORACE=halt_on_error=0 history_size=2 exitcode=0", "GOGC=100"}

type praceSpec struct {
	workload, size, arch, gpu string
	params                    map[string]int
	lds                       bool
	quick                     bool
	// noVerify: the workload's own Verify() fails at this size with the SERIAL engine too (C01's / C02's
	// subject); the comparison with the serial run's memory still decides
	noVerify bool
}

// praceSpecs: LDS-using and LDS-free kernels, sizes with several work-groups
// in flight on different compute units at once.
var praceSpecs = []praceSpec{
	{"matrixtranspose", "w128", "gcn3", "r9nano", map[string]int{"width": 128}, true, true, false},
	{"matrixmultiplication", "64", "gcn3", "r9nano", map[string]int{"x": 64, "y": 64, "z": 64}, true, true, true},
	{"fir", "l4096", "gcn3", "r9nano", map[string]int{"length": 4096, "taps": 16}, false, true, false},
	{"relu", "l4096", "gcn3", "r9nano", map[string]int{"length": 4096}, false, true, false},
	{"matrixtranspose", "w128", "cdna3", "mi300a", map[string]int{"width": 128}, true, true, false},
	{"matrixtranspose", "w256", "gcn3", "r9nano", map[string]int{"width": 256}, true, false, false},
	{"nbody", "p512", "gcn3", "r9nano", map[string]int{"particles": 512, "iter": 1}, true, false, false},
	{"bitonicsort", "l1024", "gcn3", "r9nano", map[string]int{"length": 1024, "asc": 1}, false, false, true},
	{"simpleconvolution", "64x64", "gcn3", "r9nano", map[string]int{"width": 64, "height": 64, "mask": 3}, false, false, false},
	{"floydwarshall", "n32", "gcn3", "r9nano", map[string]int{"node": 32, "iter": 0}, false, false, true},
	{"fir", "l4096", "cdna3", "mi300a", map[string]int{"length": 4096, "taps": 16}, false, false, false},
}

// C05PraceCases returns (serial reference, parallel) case pairs.
func C05PraceCases(thorough bool) (ser, par []Case) {
	for _, s := range praceSpecs {
		if !thorough && !s.quick {
			continue
		}
		c := Case{Workload: s.workload, Params: s.params, SizeName: s.size, Arch: s.arch, GPUs: []int{1}, Mode: "timing", GPUType: s.gpu,
			WantBuffers: true, WantOutputs: true, SkipVerify: s.noVerify, Env: praceEnv}
		ser = append(ser, c)
		c.Parallel = true
		par = append(par, c)
	}
	return
}

// RaceReport is one distinct data race (by signature) of a run.
type RaceReport struct {
	Sig    string
	Frames [2]string // innermost sarchlab frame of each access, with file:line
	Text   string
	Count  int
}

var (
	raceFrameRe = regexp.MustCompile(`^  (\S.*)\(\)$`)
	raceFileRe  = regexp.MustCompile(`^      (\S+):(\d+)`)
)

// ParseRaces extracts one report per distinct signature from race-detector
// output: for each of the two accesses the innermost frame inside
// github.com/sarchlab (mgpusim or akita), package path cut to its last
// element; the pair is sorted. An access without such a frame (stack not
// restored, or runtime/std only) is "?".
func ParseRaces(prefix, stderr string) []RaceReport {
	var out []RaceReport
	idx := map[string]int{}
	for _, blk := range strings.Split(stderr, "WARNING: DATA RACE")[1:] {
		if i := strings.Index(blk, "=================="); i >= 0 {
			blk = blk[:i]
		}
		var tops, locs []string
		lines := strings.Split(blk, "\n")
		for i := 0; i < len(lines); i++ {
			l := lines[i]
			if !(strings.HasPrefix(l, "Write at") || strings.HasPrefix(l, "Read at") || strings.HasPrefix(l, "Previous ") ||
				strings.HasPrefix(l, "Atomic ")) {
				continue
			}
			top, loc := "?", ""
			for j := i + 1; j < len(lines) && lines[j] != ""; j++ {
				m := raceFrameRe.FindStringSubmatch(lines[j])
				if m == nil {
					continue
				}
				if strings.Contains(m[1], "github.com/sarchlab/") {
					top = m[1]
					if k := strings.LastIndex(top, "/"); k >= 0 {
						top = top[k+1:]
					}
					if j+1 < len(lines) {
						if f := raceFileRe.FindStringSubmatch(lines[j+1]); f != nil {
							file := f[1]
							if k := strings.Index(file, "github.com/sarchlab/"); k >= 0 {
								file = file[k+len("github.com/sarchlab/"):]
							} else if k := strings.Index(file, "/amd/"); k >= 0 {
								file = "mgpusim" + file[k:]
							}
							loc = file + ":" + f[2]
						}
					}
					break
				}
			}
			tops = append(tops, top)
			locs = append(locs, top+" ("+loc+")")
		}
		for len(tops) < 2 {
			tops = append(tops, "?")
			locs = append(locs, "?")
		}
		if tops[0] > tops[1] {
			tops[0], tops[1] = tops[1], tops[0]
			locs[0], locs[1] = locs[1], locs[0]
		}
		sig := prefix + tops[0] + "|" + tops[1]
		if k, ok := idx[sig]; ok {
			out[k].Count++
			continue
		}
		idx[sig] = len(out)
		out = append(out, RaceReport{Sig: sig, Frames: [2]string{locs[0], locs[1]}, Text: "WARNING: DATA RACE" + blk, Count: 1})
	}
	return out
}

const praceSigPrefix = "parallel-engine/race/"

func praceMemSig(c Case) string {
	return "parallel-engine/differs=device-memory/" + c.Class()
}

type praceRun struct {
	ci   int
	par  bool
	o    Outcome
	race []RaceReport
}

func praceExec(c Case, cap time.Duration) Outcome {
	o := Exec(c, cap)
	for k := 0; k < 2 && (o.Status == "lostwakeup" || o.Status == "infra"); k++ {
		o = Exec(c, cap)
		o.Reruns = k + 1
	}
	return o
}

// RunC05Prace is the parallel-engine pass of C05.
func RunC05Prace(r *harness.Run) {
	if r.Replay != "" {
		replayC05Prace(r)
		return
	}
	t0 := time.Now()
	ser, par := C05PraceCases(r.Thorough())
	if f := os.Getenv("C05PRACE_ONLY"); f != "" { // development aid
		var s2, p2 []Case
		for i := range par {
			if strings.Contains(par[i].Name(), f) {
				s2, p2 = append(s2, ser[i]), append(p2, par[i])
			}
		}
		ser, par = s2, p2
	}
	reps := 2
	if r.Thorough() {
		reps = 3
	}
	cap := 10 * time.Minute
	if r.Thorough() {
		cap = 25 * time.Minute
	}
	// job list: one serial reference per case, reps parallel runs; parallel runs use up to 16
	// threads each, so few at a time
	type job struct {
		ci  int
		par bool
	}
	var jobs []job
	for i := range par {
		for k := 0; k < reps; k++ {
			jobs = append(jobs, job{i, true})
		}
	}
	for i := range ser {
		jobs = append(jobs, job{i, false})
	}
	workers := runtime.NumCPU() / 3
	if workers < 2 {
		workers = 2
	}
	var mu sync.Mutex
	var runs []praceRun
	next, notStarted := 0, 0
	var wg sync.WaitGroup
	for w := 0; w < workers; w++ {
		wg.Add(1)
		go func() {
			defer wg.Done()
			for {
				mu.Lock()
				if next >= len(jobs) {
					mu.Unlock()
					return
				}
				if time.Now().After(r.Deadline()) {
					notStarted += len(jobs) - next
					next = len(jobs)
					mu.Unlock()
					return
				}
				j := jobs[next]
				next++
				mu.Unlock()
				c := ser[j.ci]
				if j.par {
					c = par[j.ci]
				}
				o := praceExec(c, cap)
				pr := praceRun{ci: j.ci, par: j.par, o: o, race: ParseRaces(praceSigPrefix, o.Races)}
				mu.Lock()
				runs = append(runs, pr)
				mu.Unlock()
			}
		}()
	}
	wg.Wait()
	CleanScratch()

	// races seen with the serial engine: application thread vs engine goroutine, C12's subject
	serialSigs := map[string]bool{}
	refs := make([]*Outcome, len(ser))
	for i := range runs {
		pr := &runs[i]
		if pr.par {
			continue
		}
		refs[pr.ci] = &pr.o
		for _, rp := range pr.race {
			serialSigs[rp.Sig] = true
		}
	}
	type agg struct {
		rep   RaceReport
		cases map[string]bool
		count int
		first Case
	}
	races := map[string]*agg{}
	parRuns, parOK, memCompared, memEqual, undecided, slowest := 0, 0, 0, 0, 0, 0.0
	undecidedNames := []string{}
	perCase := map[string]map[string]any{}
	for i := range runs {
		pr := &runs[i]
		if pr.o.WallS > slowest {
			slowest = pr.o.WallS
		}
		if !pr.par {
			continue
		}
		c := par[pr.ci]
		parRuns++
		pc := perCase[c.Name()]
		if pc == nil {
			pc = map[string]any{"case": c.Name(), "runs": 0, "race_signatures": map[string]bool{}, "memory_equal_to_serial_run": 0}
			perCase[c.Name()] = pc
		}
		pc["runs"] = pc["runs"].(int) + 1
		for _, rp := range pr.race {
			if serialSigs[rp.Sig] {
				continue
			}
			a := races[rp.Sig]
			if a == nil {
				a = &agg{rep: rp, cases: map[string]bool{}, first: c}
				races[rp.Sig] = a
			}
			a.cases[c.Name()] = true
			a.count += rp.Count
			pc["race_signatures"].(map[string]bool)[rp.Sig] = true
		}
		ref := refs[pr.ci]
		switch pr.o.Status {
		case "ok":
			parOK++
		case "", "capped", "infra", "lostwakeup":
			undecided++
			undecidedNames = append(undecidedNames, c.Name()+": "+pr.o.Status+" "+pr.o.Symptom)
			continue
		default:
			if ref != nil && ref.Status == "ok" {
				what := "run-fails"
				if pr.o.Symptom == "verify-mismatch" {
					what = "verify-fails"
				}
				r.Report("parallel-engine/"+what+"/"+c.Class(), fmt.Sprintf("%s: the run on the parallel engine fails (%s %s, stage %s) while the serial-engine run of the same case completes and verifies\n%s",
					c.Name(), pr.o.Status, pr.o.Symptom, pr.o.Stage, pr.o.Detail), C05Prace{Kind: "c05prace", Case: c, Want: "parallel-engine/" + what + "/" + c.Class(), Runs: 3})
			} else {
				undecided++
				undecidedNames = append(undecidedNames, c.Name()+": fails with the serial engine too (C01's subject): "+pr.o.Symptom)
			}
			continue
		}
		if ref == nil || ref.Status != "ok" {
			undecided++
			undecidedNames = append(undecidedNames, c.Name()+": no serial-engine reference run")
			continue
		}
		memCompared++
		m := blobsDiffer("device buffer", ref.Res.Buffers, pr.o.Res.Buffers)
		if m == "" {
			m = blobsDiffer("output", ref.Res.Outputs, pr.o.Res.Outputs)
		}
		if m == "" {
			memEqual++
			pc["memory_equal_to_serial_run"] = pc["memory_equal_to_serial_run"].(int) + 1
			continue
		}
		r.Report(praceMemSig(c), fmt.Sprintf("%s: final device memory after the run on the parallel engine differs from the serial-engine run of the same program and inputs (serial engine first): %s",
			c.Name(), m), C05Prace{Kind: "c05prace", Case: c, Want: praceMemSig(c), Runs: 5})
	}
	sigs := make([]string, 0, len(races))
	for s := range races {
		sigs = append(sigs, s)
	}
	sort.Strings(sigs)
	for _, s := range sigs {
		a := races[s]
		var cs []string
		for n := range a.cases {
			cs = append(cs, n)
		}
		sort.Strings(cs)
		r.Report(s, fmt.Sprintf("data race between two handlers the parallel engine runs at the same simulated time (%d report(s) in %d case(s): %s); not reported by the serial-engine runs\n  access 1: %s\n  access 2: %s\n%s",
			a.count, len(cs), strings.Join(cs, ", "), a.rep.Frames[0], a.rep.Frames[1], firstN(a.rep.Text, 6000)),
			C05Prace{Kind: "c05prace", Case: a.first, Want: s, Runs: 2})
	}
	var pcl []any
	names := make([]string, 0, len(perCase))
	for n := range perCase {
		names = append(names, n)
	}
	sort.Strings(names)
	for _, n := range names {
		pc := perCase[n]
		var l []string
		for s := range pc["race_signatures"].(map[string]bool) {
			l = append(l, s)
		}
		sort.Strings(l)
		pc["race_signatures"] = l
		pcl = append(pcl, pc)
	}
	ss := []string{}
	for s := range serialSigs {
		ss = append(ss, s)
	}
	sort.Strings(ss)
	r.Cov["label"] = c05PraceLabel
	r.Cov["cases"] = len(par)
	r.Cov["parallel_engine_runs"] = parRuns
	r.Cov["parallel_engine_runs_completed"] = parOK
	r.Cov["serial_engine_reference_runs"] = len(ser)
	r.Cov["memory_comparisons"] = memCompared
	r.Cov["memory_identical_to_serial_run"] = memEqual
	r.Cov["distinct_race_signatures"] = sigs
	r.Cov["races_also_seen_with_the_serial_engine_not_judged_here"] = ss
	r.Cov["per_case"] = pcl
	r.Cov["undecided"] = undecidedNames
	r.Cov["runs_not_started_deadline"] = notStarted
	r.Cov["slowest_run_s"] = slowest
	r.Cov["wall_s"] = time.Since(t0).Seconds()
	r.Cov["complete"] = undecided == 0 && notStarted == 0
	r.Cov["rule"] = "one case = one shipped workload (LDS-using and LDS-free kernels, several work-groups in flight on different compute units) on the real timing platform built as the runner builds it for -parallel (akita ParallelEngine; nothing else changes), free running in a -race binary with GOMAXPROCS=16; oracle (a): every race-detector report becomes a signature from the innermost github.com/sarchlab frame of each access (reports that the serial-engine run of the same case also gives are C12's and only counted); oracle (b): every live device buffer and the workload's host outputs equal those of the serial-engine run, and the workload's own Verify() passes"
	r.Assume = append(r.Assume,
		"parallel-engine pass: "+c05PraceLabel,
		"parallel-engine pass: no tracer or recorder of the harness is attached in these runs (device buffers are read back through the driver after the run); a run that ends in one of the driver's host-thread races or is killed is repeated (twice at most) and otherwise left undecided",
	)
	fmt.Printf("C05 parallel-engine pass: %d cases, %d parallel runs (%d completed), %d memory comparisons (%d identical to the serial run), %d distinct race signature(s), %d undecided, %.0fs\n",
		len(par), parRuns, parOK, memCompared, memEqual, len(sigs), undecided, time.Since(t0).Seconds())
}

// replayC05Prace re-runs the case (serial reference once, parallel engine a few
// times) and looks for the recorded signature. Sampling.
func replayC05Prace(r *harness.Run) {
	data, err := os.ReadFile(r.Replay)
	if err != nil {
		fmt.Println("INFRASTRUCTURE ERROR:", err)
		os.Exit(2)
	}
	var f struct {
		Signature string   `json:"signature"`
		Case      C05Prace `json:"case"`
	}
	if json.Unmarshal(data, &f) != nil || f.Case.Kind != "c05prace" {
		fmt.Println("INFRASTRUCTURE ERROR: not a parallel-engine replay file")
		os.Exit(2)
	}
	c := f.Case.Case
	n := f.Case.Runs
	if n <= 0 {
		n = 3
	}
	fmt.Printf("replay of %s: serial-engine reference run + %d free runs of %s on the parallel engine under the race detector (sampling)\n", f.Case.Want, n, c.Name())
	sc := c
	sc.Parallel = false
	ref := praceExec(sc, 25*time.Minute)
	fmt.Printf("  serial engine: %s %s (%.0fs)\n", ref.Status, ref.Symptom, ref.WallS)
	serialSigs := map[string]bool{}
	for _, rp := range ParseRaces(praceSigPrefix, ref.Races) {
		serialSigs[rp.Sig] = true
	}
	for k := 0; k < n; k++ {
		o := praceExec(c, 25*time.Minute)
		rs := ParseRaces(praceSigPrefix, o.Races)
		fmt.Printf("  parallel engine run %d: %s %s, %d distinct race signature(s) (%.0fs)\n", k+1, o.Status, o.Symptom, len(rs), o.WallS)
		for _, rp := range rs {
			if rp.Sig == f.Case.Want && !serialSigs[rp.Sig] {
				fmt.Printf("VIOLATION property=%s replay=%s\n  signature: %s\n  access 1: %s\n  access 2: %s\n%s\n", r.ID, r.Replay, rp.Sig, rp.Frames[0], rp.Frames[1], rp.Text)
				os.Exit(1)
			}
		}
		if strings.HasPrefix(f.Case.Want, "parallel-engine/race/") {
			continue
		}
		if o.Status == "fail" || o.Status == "hang" {
			if ref.Status == "ok" {
				fmt.Printf("VIOLATION property=%s replay=%s\n  signature: %s\n  the parallel-engine run fails (%s %s), the serial-engine run does not\n%s\n", r.ID, r.Replay, f.Case.Want, o.Status, o.Symptom, o.Detail)
				os.Exit(1)
			}
			continue
		}
		if o.Status == "ok" && ref.Status == "ok" {
			m := blobsDiffer("device buffer", ref.Res.Buffers, o.Res.Buffers)
			if m == "" {
				m = blobsDiffer("output", ref.Res.Outputs, o.Res.Outputs)
			}
			if m != "" {
				fmt.Printf("VIOLATION property=%s replay=%s\n  signature: %s\n  %s\n", r.ID, r.Replay, praceMemSig(c), m)
				os.Exit(1)
			}
		}
	}
	CleanScratch()
	fmt.Printf("replay: %s not observed in this sample of %d parallel-engine runs\n", f.Case.Want, n)
	os.Exit(0)
}
