package platlat

import (
	"fmt"
	"hash/fnv"
	"sort"
	"strings"
	"sync"

	"github.com/sarchlab/akita/v4/sim"
	"github.com/sarchlab/akita/v4/tracing"
	"github.com/sarchlab/mgpusim/v4/amd/emu"
	"github.com/sarchlab/mgpusim/v4/amd/kernels"
	"github.com/sarchlab/mgpusim/v4/amd/timing/cu"
	"github.com/sarchlab/mgpusim/v4/amd/timing/wavefront"
)

// WfTrace is the executed-instruction sequence of one wavefront: PCs relative
// to the kernel entry point, in issue order.
type WfTrace struct {
	Key   string   `json:"key"` // launch#/wg(x,y,z)/wf<first flat id>
	Count int      `json:"count"`
	Hash  uint64   `json:"hash"`
	PCs   []uint32 `json:"pcs,omitempty"` // kept only below fullTraceLimit
	CU    string   `json:"cu,omitempty"`  // name of the compute unit that executed the wavefront (placement; not part of Key)
}

const fullTraceLimit = 4 << 20 // executed instructions kept verbatim per run

// pcRecorder is shared by the emu hook and the timing tracer. Wavefronts are
// keyed by (launch sequence number, work-group id, first flat work-item id),
// never by CU. The launch number is the order of first appearance of the
// dispatch packet address (launches on one queue are serialised by the driver).
type pcRecorder struct {
	mu       sync.Mutex
	launches map[uint64]int // packet address -> sequence number
	wfs      map[*kernels.Wavefront]*wfRec
	order    []*wfRec
	total    int
}

type wfRec struct {
	key    string
	cu     string
	entry  uint64
	nextPC uint64 // emu only
	pcs    []uint32
}

func newPCRecorder() *pcRecorder {
	return &pcRecorder{launches: map[uint64]int{}, wfs: map[*kernels.Wavefront]*wfRec{}}
}

func (r *pcRecorder) rec(k *kernels.Wavefront, cu string) *wfRec {
	w := r.wfs[k]
	if w != nil {
		return w
	}
	ln, ok := r.launches[k.PacketAddress]
	if !ok {
		ln = len(r.launches)
		r.launches[k.PacketAddress] = ln
	}
	entry := k.Packet.KernelObject + k.CodeObject.KernelCodeEntryByteOffset
	w = &wfRec{
		key:    fmt.Sprintf("L%04d/wg(%d,%d,%d)/wf%d", ln, k.WG.IDX, k.WG.IDY, k.WG.IDZ, k.FirstWiFlatID),
		cu:     cu,
		entry:  entry,
		nextPC: entry,
	}
	r.wfs[k] = w
	r.order = append(r.order, w)
	return w
}

func (r *pcRecorder) add(w *wfRec, pc uint64) {
	w.pcs = append(w.pcs, uint32(pc-w.entry))
	r.total++
}

// Func is the emu CU hook: called once per executed instruction after it has
// been executed; the instruction's own PC is the wavefront's PC after the
// previous instruction (the entry point for the first one).
func (r *pcRecorder) Func(ctx sim.HookCtx) {
	wf, ok := ctx.Item.(*emu.Wavefront)
	if !ok {
		return
	}
	r.mu.Lock()
	cuName := ""
	if n, ok := ctx.Domain.(interface{ Name() string }); ok {
		cuName = n.Name()
	}
	w := r.rec(wf.Wavefront, cuName)
	r.add(w, w.nextPC)
	w.nextPC = wf.PC()
	r.mu.Unlock()
}

// StartTask is the timing-CU tracer: tasks of kind "inst" start at issue, when
// the wavefront's PC is still the PC of the issued instruction.
func (r *pcRecorder) StartTask(task tracing.Task) {
	if task.Kind != "inst" {
		return
	}
	d, ok := task.Detail.(map[string]interface{})
	if !ok {
		return
	}
	wf, ok := d["wf"].(*wavefront.Wavefront)
	if !ok {
		return
	}
	r.mu.Lock()
	w := r.rec(wf.Wavefront, cuOf(task.Location))
	r.add(w, wf.PC())
	r.mu.Unlock()
}

// cuOf cuts the execution unit off an "inst" task's location
// ("GPU[1].SA[8].CU[0].Scalar" -> "GPU[1].SA[8].CU[0]").
func cuOf(loc string) string {
	if i := strings.LastIndex(loc, ".CU["); i >= 0 {
		if j := strings.Index(loc[i:], "]"); j >= 0 {
			return loc[:i+j+1]
		}
	}
	return loc
}

func (r *pcRecorder) StepTask(tracing.Task)          {}
func (r *pcRecorder) EndTask(tracing.Task)           {}
func (r *pcRecorder) AddMilestone(tracing.Milestone) {}

// attach hooks every compute unit of the platform.
func (r *pcRecorder) attach(p *Platform) int {
	n := 0
	for _, c := range p.Sim.Components() {
		switch c := c.(type) {
		case *emu.ComputeUnit:
			c.AcceptHook(r)
			n++
		case *cu.ComputeUnit:
			tracing.CollectTrace(c, r)
			n++
		}
	}
	return n
}

func (r *pcRecorder) result() (wfs []WfTrace, total int) {
	r.mu.Lock()
	defer r.mu.Unlock()
	keep := r.total <= fullTraceLimit
	for _, w := range r.order {
		h := fnv.New64a()
		var b [4]byte
		for _, pc := range w.pcs {
			b[0], b[1], b[2], b[3] = byte(pc), byte(pc>>8), byte(pc>>16), byte(pc>>24)
			h.Write(b[:])
		}
		t := WfTrace{Key: w.key, Count: len(w.pcs), Hash: h.Sum64(), CU: w.cu}
		if keep {
			t.PCs = w.pcs
		}
		wfs = append(wfs, t)
	}
	sort.Slice(wfs, func(i, j int) bool { return wfs[i].Key < wfs[j].Key })
	return wfs, r.total
}
