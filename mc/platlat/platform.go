// Package platlat is the configuration-lattice machinery shared by C01, C18(a)
// and C02 (layer 2): it builds real emulation / timing platforms
// programmatically (the same builders amd/samples/runner uses), runs one
// shipped workload on them in a worker subprocess and hands back verdict,
// output buffers and per-wavefront executed-PC sequences.
package platlat

import (
	"fmt"

	"github.com/sarchlab/akita/v4/mem/mem"
	"github.com/sarchlab/akita/v4/mem/vm"
	"github.com/sarchlab/akita/v4/mem/vm/mmu"
	"github.com/sarchlab/akita/v4/noc/networking/pcie"
	"github.com/sarchlab/akita/v4/sim"
	"github.com/sarchlab/akita/v4/simulation"
	"github.com/sarchlab/mgpusim/v4/amd/arch"
	"github.com/sarchlab/mgpusim/v4/amd/driver"
	"github.com/sarchlab/mgpusim/v4/amd/samples/runner/emusystem"
	"github.com/sarchlab/mgpusim/v4/amd/samples/runner/timingconfig"
	"github.com/sarchlab/mgpusim/v4/amd/samples/runner/timingconfig/gpubuilder"
	"github.com/sarchlab/mgpusim/v4/amd/samples/runner/timingconfig/mi300a"
	"github.com/sarchlab/mgpusim/v4/amd/samples/runner/timingconfig/r9nano"
	"github.com/sarchlab/mgpusim/v4/amd/sampling"
)

// Knobs are the timing parameters the GPU builders (r9nano.Builder,
// mi300a.Builder) export. The zero value means "the shipped default", in which
// case the platform is built by timingconfig.Builder itself. A non-zero Knobs
// is built by a transcription of timingconfig.Builder.Build (which exports no
// knob but GPU count / type / magic copy) that calls the very same GPU builder
// with the exported With* methods.
type Knobs struct {
	CUPerSA   int    `json:"cu_per_sa,omitempty"`
	NumSA     int    `json:"num_sa,omitempty"`
	L2Size    uint64 `json:"l2_size,omitempty"`
	MemBanks  int    `json:"mem_banks,omitempty"`
	Log2Inter uint64 `json:"log2_interleave,omitempty"`
	MagicCopy bool   `json:"magic_copy,omitempty"`
}

// IsDefault reports whether the shipped builder can be used unchanged.
func (k Knobs) IsDefault() bool {
	return k == Knobs{} || k == Knobs{MagicCopy: true}
}

func (k Knobs) String() string {
	if k == (Knobs{}) {
		return "default"
	}
	s := ""
	if k.CUPerSA != 0 || k.NumSA != 0 {
		s += fmt.Sprintf("cu%dx%d", k.CUPerSA, k.NumSA)
	}
	if k.L2Size != 0 {
		s += fmt.Sprintf("-l2_%dK", k.L2Size/1024)
	}
	if k.MemBanks != 0 {
		s += fmt.Sprintf("-banks%d", k.MemBanks)
	}
	if k.Log2Inter != 0 {
		s += fmt.Sprintf("-il%d", k.Log2Inter)
	}
	if k.MagicCopy {
		s += "-magic"
	}
	if s[0] == '-' {
		s = s[1:]
	}
	return s
}

// Platform is one built simulator.
type Platform struct {
	Sim    *simulation.Simulation
	Driver *driver.Driver
}

func newSimulation(parallel ...bool) *simulation.Simulation {
	if len(parallel) > 0 && parallel[0] {
		// runner.initSimulation with -parallel: the only thing the flag changes is the engine
		return simulation.MakeBuilder().WithoutMonitoring().WithParallelEngine().Build()
	}
	// the recorder file akita_sim_<id>.sqlite3 is created in cwd (the worker
	// has chdir'ed into a scratch directory); monitoring (RTM web server) off,
	// exactly what `-disable-rtm` does in runner.initSimulation.
	return simulation.MakeBuilder().WithoutMonitoring().Build()
}

func parseArch(a string) arch.Type {
	if a == "cdna3" {
		return arch.CDNA3
	}
	return arch.GCN3
}

// BuildEmu mirrors runner.buildEmuPlatform.
func BuildEmu(numGPUs int, a arch.Type, parallel ...bool) *Platform {
	s := newSimulation(parallel...)
	emusystem.MakeBuilder().
		WithSimulation(s).
		WithNumGPUs(numGPUs).
		WithArchitecture(a).
		Build()
	return &Platform{Sim: s, Driver: s.GetComponentByName("Driver").(*driver.Driver)}
}

// BuildTiming mirrors runner.buildTimingPlatform (default knobs) or builds the
// same wiring with the GPU builder's exported knobs.
func BuildTiming(numGPUs int, gpuType string, k Knobs, parallel ...bool) *Platform {
	s := newSimulation(parallel...)
	sampling.InitSampledEngine()
	if k.IsDefault() {
		b := timingconfig.MakeBuilder().
			WithSimulation(s).
			WithNumGPUs(numGPUs).
			WithGPUType(gpuType)
		if k.MagicCopy {
			b = b.WithMagicMemoryCopy()
		}
		b.Build()
	} else {
		buildTimingWithKnobs(s, numGPUs, gpuType, k)
	}
	return &Platform{Sim: s, Driver: s.GetComponentByName("Driver").(*driver.Driver)}
}

// buildTimingWithKnobs is timingconfig.Builder.Build with the GPU builder's
// exported parameters applied. Every line corresponds to a line of
// /repo/amd/samples/runner/timingconfig/builder.go.
func buildTimingWithKnobs(s *simulation.Simulation, numGPUs int, gpuType string, k Knobs) {
	const memSize = 4 * mem.GB
	const log2PageSize = 12
	numCUPerSA, numSA := 4, 16
	switchLatency, d2h, h2d := 140, 300, 500
	if gpuType == "mi300a" {
		numCUPerSA, numSA = mi300a.NumCUPerShaderArray, mi300a.NumShaderArray
		switchLatency, d2h, h2d = 15, 150, 250
	}
	if k.CUPerSA != 0 {
		numCUPerSA = k.CUPerSA
	}
	if k.NumSA != 0 {
		numSA = k.NumSA
	}

	storage := mem.NewStorage(uint64(numGPUs)*memSize + memSize)

	pageTable := vm.NewPageTable(log2PageSize)
	mmuComp := mmu.MakeBuilder().
		WithEngine(s.GetEngine()).
		WithFreq(1 * sim.GHz).
		WithPageWalkingLatency(100).
		WithLog2PageSize(log2PageSize).
		WithPageTable(pageTable).
		Build("MMU")
	s.RegisterComponent(mmuComp)

	db := driver.MakeBuilder()
	if k.MagicCopy {
		db = db.WithMagicMemoryCopyMiddleware()
	}
	drv := db.WithEngine(s.GetEngine()).
		WithPageTable(pageTable).
		WithLog2PageSize(log2PageSize).
		WithGlobalStorage(storage).
		WithD2HCycles(d2h).
		WithH2DCycles(h2d).
		Build("Driver")
	s.RegisterComponent(drv)

	rdmaMapper := new(mem.BankedAddressPortMapper)
	rdmaMapper.BankSize = memSize
	rdmaMapper.LowModules = append(rdmaMapper.LowModules, sim.RemotePort("CPU"))

	var gb gpubuilder.GPUBuilder
	switch gpuType {
	case "mi300a":
		b := mi300a.MakeBuilder().
			WithSimulation(s).
			WithMMU(mmuComp).
			WithLog2PageSize(log2PageSize).
			WithGlobalStorage(storage).
			WithNumCUPerShaderArray(numCUPerSA).
			WithNumShaderArray(numSA)
		if k.L2Size != 0 {
			b = b.WithL2CacheSize(k.L2Size)
		}
		if k.MemBanks != 0 {
			b = b.WithNumMemoryBank(k.MemBanks)
		}
		if k.Log2Inter != 0 {
			b = b.WithLog2MemoryBankInterleavingSize(k.Log2Inter)
		}
		gb = b
	default:
		b := r9nano.MakeBuilder().
			WithSimulation(s).
			WithMMU(mmuComp).
			WithLog2PageSize(log2PageSize).
			WithGlobalStorage(storage).
			WithNumCUPerShaderArray(numCUPerSA).
			WithNumShaderArray(numSA)
		if k.L2Size != 0 {
			b = b.WithL2CacheSize(k.L2Size)
		}
		if k.MemBanks != 0 {
			b = b.WithNumMemoryBank(k.MemBanks)
		}
		if k.Log2Inter != 0 {
			b = b.WithLog2MemoryBankInterleavingSize(k.Log2Inter)
		}
		gb = b
	}

	conn := pcie.NewConnector().
		WithEngine(s.GetEngine()).
		WithVersion(4, 16).
		WithSwitchLatency(switchLatency)
	conn.CreateNetwork("PCIe")
	root := conn.AddRootComplex([]sim.Port{
		drv.GetPortByName("GPU"),
		drv.GetPortByName("MMU"),
		mmuComp.GetPortByName("Migration"),
		mmuComp.GetPortByName("Top"),
	})
	mmuComp.MigrationServiceProvider = drv.GetPortByName("MMU").AsRemote()

	lastSwitch := root
	for i := 1; i < numGPUs+1; i++ {
		if i%2 == 1 {
			lastSwitch = conn.AddSwitch(root)
		}
		gpu := gb.
			WithGPUID(uint64(i)).
			WithMemAddrOffset(uint64(i) * memSize).
			WithRDMAAddressMapper(rdmaMapper).
			Build(fmt.Sprintf("GPU[%d]", i))
		drv.RegisterGPU(gpu.GetPortByName("CommandProcessor"),
			driver.DeviceProperties{CUCount: numCUPerSA * numSA, DRAMSize: memSize})
		rdmaMapper.LowModules = append(rdmaMapper.LowModules,
			gpu.GetPortByName("RDMAData").AsRemote())
		conn.PlugInDevice(lastSwitch, gpu.Ports())
	}
	conn.EstablishRoute()
}
