package platlat

import (
	"bytes"
	"encoding/binary"
	"encoding/gob"
	"encoding/json"
	"fmt"
	"math/rand"
	"os"
	"reflect"
	"regexp"
	"runtime"
	"strings"
	"time"
	"unsafe"

	"github.com/sarchlab/akita/v4/sim"
	"github.com/sarchlab/mgpusim/v4/amd/benchmarks"
	"github.com/sarchlab/mgpusim/v4/amd/driver"
)

const workerFlag = "-platlat-worker"

// exit codes of a worker that decided something itself
const (
	exitLostWakeup = 94 // host blocked although every queue is empty (driver lost wake-up)
	exitNotQuiet   = 95 // host program returned with commands still queued
	exitStrong     = 96 // the strengthened oracle (whole result instead of the part Verify() looks at) failed
	exitHang       = 97 // structural deadlock: every goroutine blocked, host waiting on the driver
	exitInfra      = 98
)

// MaybeWorker must be the first statement of main(): when the process was
// started as a lattice worker it runs the case and never returns.
func MaybeWorker() {
	if len(os.Args) >= 4 && os.Args[1] == workerFlag {
		workerMain(os.Args[2], os.Args[3])
		os.Exit(0)
	}
}

func stage(s string) {
	fmt.Fprintf(os.Stderr, "\nPLATLAT-STAGE %s\n", s)
}

type verificationPreEnabling interface {
	EnableVerification()
}

func workerMain(caseFile, resultFile string) {
	data, err := os.ReadFile(caseFile)
	if err != nil {
		fmt.Fprintln(os.Stderr, "PLATLAT-INFRA", err)
		os.Exit(exitInfra)
	}
	var c Case
	if err := json.Unmarshal(data, &c); err != nil {
		fmt.Fprintln(os.Stderr, "PLATLAT-INFRA", err)
		os.Exit(exitInfra)
	}
	w := Lookup(c.Workload)
	if w == nil {
		fmt.Fprintln(os.Stderr, "PLATLAT-INFRA unknown workload", c.Workload)
		os.Exit(exitInfra)
	}

	for i := 0; i < c.WarmRuns; i++ {
		warmRun(c, w)
	}

	// Workloads draw inputs from the global math/rand source, seeded or not. Seed it so that a case
	// is the same computation every time it is run (own every nondeterminism source).
	rand.Seed(20260925)

	stage("build")
	numGPUs := 0
	for _, g := range c.GPUs {
		if g > numGPUs {
			numGPUs = g
		}
	}
	var p *Platform
	if c.Mode == "emu" {
		p = BuildEmu(numGPUs, parseArch(c.Arch), c.Parallel)
	} else {
		p = BuildTiming(numGPUs, c.GPUType, c.Knobs, c.Parallel)
	}
	fmt.Fprintf(os.Stderr, "PLATLAT-NOTE engine %T\n", p.Sim.GetEngine())
	gpus := append([]int{}, c.GPUs...)
	if c.Unified {
		gpus = []int{p.Driver.CreateUnifiedGPU(nil, gpus)}
	}
	var rec *pcRecorder
	res := &Result{}
	if c.WantPCs {
		rec = newPCRecorder()
		res.NumCUs = rec.attach(p)
	}
	var cmdRec *cmdRecorder
	if c.WantCmds {
		cmdRec = newCmdRecorder(p)
	}
	var ctrs []*counterTracer
	if c.WantCounters {
		ctrs = attachCounters(p)
	}
	b := w.New(p.Driver, parseArch(c.Arch), c.Params)
	b.SelectGPU(gpus)
	if c.UM {
		b.SetUnifiedMemory()
	}

	done := make(chan struct{})
	hangPlatform = p
	attachDebugTracer(p)
	go watchDeadlock(done, p.Driver)

	stage("run")
	p.Driver.Run()
	if !c.SkipVerify {
		if v, ok := b.(verificationPreEnabling); ok {
			v.EnableVerification()
		}
	}
	b.Run()
	if !c.SkipVerify {
		stage("verify")
		b.Verify()
	}
	if !c.SkipVerify && w.Strong != nil {
		stage("strong")
		if err := w.Strong(b); err != nil {
			fmt.Fprintf(os.Stderr, "PLATLAT-STRONG-ORACLE %v\n", err)
			os.Exit(exitStrong)
		}
	}
	stage("capture")
	if c.WantOutputs && len(w.Outputs) > 0 {
		res.Outputs = readOutputs(p.Driver, b, w.Outputs)
	}
	if c.WantBuffers || (c.WantOutputs && len(w.Outputs) == 0) {
		res.Buffers = readAllBuffers(p.Driver)
	}
	if rec != nil {
		res.Wfs, res.InstCount = rec.result()
	}
	if cmdRec != nil || ctrs != nil {
		// the engine goroutine may still be draining idle ticks: let it finish, so that the
		// time read below is the time the simulation ended at
		if !waitEngineIdle(p) {
			fmt.Fprintln(os.Stderr, "PLATLAT-NOTE engine still running 2 s after the last command completed")
		}
	}
	if cmdRec != nil {
		res.Cmds = cmdRec.result()
	}
	if ctrs != nil {
		res.Counters = counterResult(ctrs)
	}
	res.SimTime = float64(p.Sim.GetEngine().CurrentTime())
	close(done)
	// Quiescence: every command queue of every context is empty once the host
	// program has returned (a command left behind would be outstanding work).
	if n := queuedCommands(p.Driver); n != 0 {
		fmt.Fprintf(os.Stderr, "PLATLAT-NOT-QUIESCENT %d command(s) still queued after Run()/Verify() returned\n", n)
		os.Exit(exitNotQuiet)
	}
	// The result is written before the platform is torn down and
	// simulation.Terminate() is NOT called: it closes the tracer/recorder while
	// the engine goroutine may still be delivering the last events (observed:
	// "assignment to entry in nil map" in tracing.(*DBTracer).StartTask), which
	// is a teardown race of the runner, not a property of the kernels.
	dumpOpenTasks()
	res.Stage = "done"
	stage("done")

	var buf bytes.Buffer
	if err := gob.NewEncoder(&buf).Encode(res); err != nil {
		fmt.Fprintln(os.Stderr, "PLATLAT-INFRA", err)
		os.Exit(exitInfra)
	}
	if err := os.WriteFile(resultFile, buf.Bytes(), 0o644); err != nil {
		fmt.Fprintln(os.Stderr, "PLATLAT-INFRA", err)
		os.Exit(exitInfra)
	}
	os.Exit(0)
}

// pendingEvents counts the events still in the serial engine's queues.
func pendingEvents(e sim.Engine) int {
	se, ok := e.(*sim.SerialEngine)
	if !ok {
		return -1
	}
	v := reflect.ValueOf(se).Elem()
	n := 0
	for _, f := range []string{"queue", "secondaryQueue"} {
		q, ok := unexported(v, f).Interface().(sim.EventQueue)
		if ok && q != nil {
			n += q.Len()
		}
	}
	return n
}

// hangKind names the structural shape of a hang from the driver's queues.
func hangKind(d *driver.Driver) string {
	if hangPlatform != nil {
		if n := pendingEvents(hangPlatform.Sim.GetEngine()); n > 0 {
			// events are scheduled but no goroutine runs the engine: the driver's
			// runAsync/runEngine hand-off lost the restart (host-thread race, C12)
			return fmt.Sprintf("driver-race-engine-not-restarted-with-events-pending")
		}
	}
	for _, ctx := range Contexts(d) {
		qs := unexported(reflect.ValueOf(ctx).Elem(), "queues")
		for i := 0; i < qs.Len(); i++ {
			q := qs.Index(i).Interface().(*driver.CommandQueue)
			if q.NumCommand() == 0 { // exported accessors only: no assumption about how the queue stores its commands
				continue
			}
			c := q.Peek()
			if c == nil {
				continue
			}
			switch c.(type) {
			case *driver.MemCopyH2DCommand, *driver.MemCopyD2HCommand:
				if q.IsRunning && len(c.GetReqs()) == 0 {
					// every request of the copy has been answered, yet the command was
					// never dequeued
					return "memcopy-answered-but-never-dequeued"
				}
			}
		}
	}
	return "engine-idle-commands-outstanding"
}

// dumpQueues prints the commands still queued (diagnostic).
func dumpQueues(d *driver.Driver) {
	for ci, ctx := range Contexts(d) {
		qs := unexported(reflect.ValueOf(ctx).Elem(), "queues")
		for i := 0; i < qs.Len(); i++ {
			q := qs.Index(i).Interface().(*driver.CommandQueue)
			// the head command only (exported accessors: no assumption about how the queue stores its commands)
			for k := 0; k < 1 && q.NumCommand() > 0; k++ {
				c := q.Peek()
				if c == nil {
					break
				}
				extra := fmt.Sprintf(" (%d queued)", q.NumCommand())
				if h, ok := c.(*driver.MemCopyH2DCommand); ok {
					extra += fmt.Sprintf(" dst=%#x srcType=%T", uint64(h.Dst), h.Src)
				}
				fmt.Fprintf(os.Stderr, "PLATLAT-QUEUED ctx%d queue%d(gpu %d, running=%v) #%d %T pendingReqs=%d%s\n", ci, i, q.GPUID, q.IsRunning, k, c, len(c.GetReqs()), extra)
				for _, r := range c.GetReqs() {
					fmt.Fprintf(os.Stderr, "PLATLAT-QUEUED    req %T -> %s\n", r, r.Meta().Dst)
				}
			}
		}
	}
}

var hangPlatform *Platform

// dumpStuckPorts lists, for a structural hang, every port that still holds a
// message (where the simulated hardware is stuck); diagnostic only.
func dumpStuckPorts() {
	if hangPlatform == nil {
		return
	}
	n := 0
	for _, c := range hangPlatform.Sim.Components() {
		pc, ok := c.(interface{ Ports() []sim.Port })
		if !ok {
			continue
		}
		for _, p := range pc.Ports() {
			in, out := p.PeekIncoming(), p.PeekOutgoing()
			if in == nil && out == nil {
				continue
			}
			n++
			if n > 40 {
				return
			}
			fmt.Fprintf(os.Stderr, "PLATLAT-STUCK port %s:", p.Name())
			if in != nil {
				fmt.Fprintf(os.Stderr, " incoming head %T from %s", in, in.Meta().Src)
			}
			if out != nil {
				fmt.Fprintf(os.Stderr, " outgoing head %T to %s", out, out.Meta().Dst)
			}
			fmt.Fprintln(os.Stderr)
		}
	}
}

// queuedCommands counts the commands in all queues of all contexts.
func queuedCommands(d *driver.Driver) int {
	n := 0
	for _, ctx := range Contexts(d) {
		qs := unexported(reflect.ValueOf(ctx).Elem(), "queues")
		for i := 0; i < qs.Len(); i++ {
			n += qs.Index(i).Interface().(*driver.CommandQueue).NumCommand()
		}
	}
	return n
}

var goroutineHdr = regexp.MustCompile(`(?m)^goroutine \d+ \[([^\],]+)`)

// watchDeadlock detects a hang structurally, not by elapsed time: in one
// stop-the-world snapshot of all goroutines (runtime.Stack) the host program
// is blocked in the driver (CommandQueueStatusListener.Wait), no goroutine is
// inside Driver.runEngine (the event queue ran dry), and no goroutine other
// than this one is running, runnable, sleeping or in a syscall - i.e. nothing
// in the process can ever make progress again. The poll period only decides
// how soon that state is noticed.
func watchDeadlock(done <-chan struct{}, d *driver.Driver) {
	seen := 0
	buf := make([]byte, 4<<20)
	for {
		select {
		case <-done:
			return
		case <-time.After(300 * time.Millisecond):
		}
		n := runtime.Stack(buf, true)
		s := string(buf[:n])
		if !strings.Contains(s, "(*CommandQueueStatusListener).Wait") ||
			strings.Contains(s, "(*Driver).runEngine") {
			seen = 0
			continue
		}
		active := 0
		for _, m := range goroutineHdr.FindAllStringSubmatch(s, -1) {
			switch m[1] {
			case "running", "runnable", "sleep", "syscall", "IO wait":
				active++
			}
		}
		if active > 1 { // this goroutine is the one "running"
			seen = 0
			continue
		}
		seen++
		if seen >= 2 {
			if n := queuedCommands(d); n == 0 {
				// every command completed, yet the host still waits: the completion
				// notification was dropped (CommandQueueStatusListener.Notify does a
				// non-blocking send; DrainCommandQueue checks NumCommand() and then
				// calls Wait() - a wake-up between the two is lost). Property C12.
				fmt.Fprintf(os.Stderr, "\nPLATLAT-LOST-WAKEUP all command queues are empty but the host is blocked in CommandQueueStatusListener.Wait; all goroutines blocked\n")
				os.Exit(exitLostWakeup)
			} else {
				dumpStuckPorts()
				dumpQueues(d)
				dumpOpenTasks()
				kind := hangKind(d)
				fmt.Fprintf(os.Stderr, "\nPLATLAT-HANG-KIND %s\n", kind)
				if strings.HasPrefix(kind, "driver-race") {
					os.Exit(exitLostWakeup)
				}
				fmt.Fprintf(os.Stderr, "\nPLATLAT-HANG engine idle (no event left) with %d command(s) outstanding, host blocked in CommandQueueStatusListener.Wait, all goroutines blocked\n", n)
				os.Exit(exitHang)
			}
		}
	}
}

// ---------------------------------------------------------------------------
// reading results back

func fieldOf(b benchmarks.Benchmark, path string) (reflect.Value, bool) {
	v := reflect.ValueOf(b)
	for _, name := range strings.Split(path, ".") {
		for v.Kind() == reflect.Ptr || v.Kind() == reflect.Interface {
			if v.IsNil() {
				return v, false
			}
			v = v.Elem()
		}
		if v.Kind() != reflect.Struct {
			return v, false
		}
		f := v.FieldByName(name)
		if !f.IsValid() {
			return f, false
		}
		if !f.CanInterface() {
			f = reflect.NewAt(f.Type(), unsafe.Pointer(f.UnsafeAddr())).Elem()
		}
		v = f
	}
	return v, true
}

var ptrType = reflect.TypeOf(driver.Ptr(0))

// readOutputs returns the workload's output data. A field of type driver.Ptr
// is a device buffer: it is copied back through the driver (MemCopyD2H, i.e.
// the path the property names). A host slice field is data the workload itself
// copied back with MemCopyD2H during Run(); it is serialised little-endian.
func readOutputs(d *driver.Driver, b benchmarks.Benchmark, names []string) []Blob {
	var out []Blob
	ctx := benchContext(b)
	for _, n := range names {
		f, ok := fieldOf(b, n)
		if !ok {
			fmt.Fprintln(os.Stderr, "PLATLAT-INFRA no output field", n)
			os.Exit(exitInfra)
		}
		switch {
		case f.Type() == ptrType:
			out = append(out, Blob{Name: n, Data: readDevice(d, ctx, driver.Ptr(f.Uint()))})
		case f.Kind() == reflect.Slice && f.Type().Elem() == ptrType:
			for i := 0; i < f.Len(); i++ {
				out = append(out, Blob{Name: fmt.Sprintf("%s[%d]", n, i), Data: readDevice(d, ctx, driver.Ptr(f.Index(i).Uint()))})
			}
		case f.Kind() == reflect.Slice:
			var buf bytes.Buffer
			if err := binary.Write(&buf, binary.LittleEndian, f.Interface()); err != nil {
				fmt.Fprintln(os.Stderr, "PLATLAT-INFRA cannot serialise", n, err)
				os.Exit(exitInfra)
			}
			out = append(out, Blob{Name: n, Data: buf.Bytes()})
		default:
			fmt.Fprintln(os.Stderr, "PLATLAT-INFRA unsupported output field type", n, f.Type())
			os.Exit(exitInfra)
		}
	}
	return out
}

func benchContext(b benchmarks.Benchmark) *driver.Context {
	for _, n := range []string{"context", "ctx", "Context"} {
		if f, ok := fieldOf(b, n); ok {
			if c, ok := f.Interface().(*driver.Context); ok {
				return c
			}
		}
	}
	return nil
}

func readDevice(d *driver.Driver, ctx *driver.Context, p driver.Ptr) []byte {
	size, ok := bufferSize(d, p)
	if !ok {
		fmt.Fprintf(os.Stderr, "PLATLAT-INFRA output pointer %#x is not a live buffer\n", uint64(p))
		os.Exit(exitInfra)
	}
	if ctx == nil {
		ctx = Contexts(d)[0]
	}
	data := make([]byte, size)
	d.MemCopyD2H(ctx, data, p)
	return data
}

// readAllBuffers dumps every live device buffer of every context through
// MemCopyD2H, named by (context index, allocation index, size).
func readAllBuffers(d *driver.Driver) []Blob {
	var out []Blob
	ctxs := Contexts(d)
	for _, b := range LiveBuffers(d) {
		data := make([]byte, b.Size)
		d.MemCopyD2H(ctxs[b.Ctx], data, b.Addr)
		out = append(out, Blob{Name: fmt.Sprintf("ctx%d/buf%d/%dB", b.Ctx, b.Idx, b.Size), Data: data})
	}
	return out
}

var _ = sim.VTimeInSec(0)


// warmRun runs the case's program once on a platform of its own and throws the result away (Case.WarmRuns).
func warmRun(c Case, w *Workload) {
	rand.Seed(20260925)
	stage("warm")
	numGPUs := 0
	for _, g := range c.GPUs {
		if g > numGPUs {
			numGPUs = g
		}
	}
	var p *Platform
	if c.Mode == "emu" {
		p = BuildEmu(numGPUs, parseArch(c.Arch), c.Parallel)
	} else {
		p = BuildTiming(numGPUs, c.GPUType, c.Knobs, c.Parallel)
	}
	gpus := append([]int{}, c.GPUs...)
	if c.Unified {
		gpus = []int{p.Driver.CreateUnifiedGPU(nil, gpus)}
	}
	b := w.New(p.Driver, parseArch(c.Arch), c.Params)
	b.SelectGPU(gpus)
	if c.UM {
		b.SetUnifiedMemory()
	}
	done := make(chan struct{})
	hangPlatform = p
	go watchDeadlock(done, p.Driver)
	p.Driver.Run()
	b.Run()
	waitEngineIdle(p)
	close(done)
	p.Driver.Terminate()
}
