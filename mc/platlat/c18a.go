package platlat

import (
	"bytes"
	"encoding/binary"
	"encoding/json"
	"fmt"
	"math"
	"os"
	"runtime"
	"sort"
	"strings"
	"sync"
	"time"

	"verif/mc/harness"
)

// C18aPair is the replay artefact of the C18(a) lattice: a spread and its
// single-GPU reference.
type C18aPair struct {
	Kind string `json:"kind"` // "c18a"
	Ref  Case   `json:"ref"`
	Case Case   `json:"case"`
}

// c18aSizes picks, per workload, the sizes used for the spread comparison:
// the sizes that are admissible for a 4-GPU plain split (so that one size
// serves every GPU set), preferring a partial-work-group class and a
// work-group-multiple class.
func c18aSizes(e *Entry, thorough bool) []Size {
	var out []Size
	for _, s := range e.Sizes {
		if e.PlainMulti == "split" && !contains(s.PlainGPUs, 4) {
			continue
		}
		if !s.Quick && !s.Spread && !(thorough && s.Timing) {
			continue
		}
		out = append(out, s)
	}
	if len(out) == 0 && len(e.Sizes) > 0 {
		out = append(out, e.Sizes[len(e.Sizes)-1])
	}
	return out
}

// C18aCases enumerates references and spreads. refs[i] is the index of the
// reference of case i (itself for a reference).
func (m *Matrix) C18aCases(thorough bool) (cases []Case, refs []int, skipped int) {
	sets := []GPUSetSpec{U1, G12, G1234, U12, U1234}
	type mode struct{ mode, gpu, arch string }
	for i := range m.Workloads {
		e := &m.Workloads[i]
		var modes []mode
		for _, a := range e.Archs {
			modes = append(modes, mode{"emu", "", a})
		}
		if (thorough || e.Synthetic) && e.Timing != nil {
			a := "gcn3"
			if e.Timing.GPU == "mi300a" {
				a = "cdna3"
			}
			modes = append(modes, mode{"timing", e.Timing.GPU, a})
		}
		for _, md := range modes {
			sizes := c18aSizes(e, thorough)
			if md.mode == "timing" {
				// one small size, and the spread size only for emulation (cost)
				var small []Size
				for _, s := range sizes {
					if !s.Spread && len(small) == 0 {
						small = append(small, s)
					}
				}
				sizes = small
			}
			for _, s := range sizes {
				ref := Case{Workload: e.Name, Params: s.Params, SizeName: s.Name, Arch: md.arch, GPUs: []int{1},
					Mode: md.mode, GPUType: md.gpu, WantOutputs: true, SkipVerify: true}
				if len(Lookup(e.Name).Outputs) == 0 {
					// conv2d / im2col keep their results inside the operator and discard them; the
					// list of live buffers is not comparable across spreads (the driver allocates
					// per-GPU dispatch packets in unified mode). For these two the spread is
					// judged by the workload's own tolerance: the operator's GPU-vs-CPU check
					// (1% relative) must pass on every spread.
					ref.WantOutputs, ref.SkipVerify = false, false
				}
				ri := len(cases)
				ref.IsRef = true
				cases = append(cases, ref)
				ref.IsRef = false
				refs = append(refs, ri)
				for _, g := range sets {
					if ok, _ := e.Admissible(s, g); !ok {
						skipped++
						continue
					}
					c := ref
					c.GPUs, c.Unified = g.GPUs, g.Unified
					cases = append(cases, c)
					refs = append(refs, ri)
				}
			}
		}
	}
	return
}

func blobs(r *Result) []Blob {
	if len(r.Outputs) > 0 {
		return r.Outputs
	}
	return r.Buffers
}

// compareOutputs compares two runs' output buffers bit for bit. Every shipped
// kernel computes each output element in one work-item with the same
// instruction sequence whatever the spread (no atomics, no cross-work-group
// reduction - checked in the kernel sources), so bit equality is required;
// tol (the workload's own tolerance) is only used to grade a difference.
func compareOutputs(w *Workload, a, b *Result) (equal bool, withinTol bool, msg string) {
	ba, bb := blobs(a), blobs(b)
	if len(ba) != len(bb) {
		return false, false, fmt.Sprintf("number of output buffers differs: %d vs %d", len(ba), len(bb))
	}
	equal, withinTol = true, true
	var sb strings.Builder
	for i := range ba {
		if len(w.Outputs) == 0 && ba[i].Name != bb[i].Name {
			// all-buffers mode: the allocation sequence must be the same
			return false, false, fmt.Sprintf("buffer lists differ: %s vs %s", ba[i].Name, bb[i].Name)
		}
		if len(ba[i].Data) != len(bb[i].Data) {
			return false, false, fmt.Sprintf("%s: size differs: %d vs %d bytes", ba[i].Name, len(ba[i].Data), len(bb[i].Data))
		}
		if bytes.Equal(ba[i].Data, bb[i].Data) {
			continue
		}
		equal = false
		n, first := 0, -1
		maxd := 0.0
		for o := 0; o+4 <= len(ba[i].Data); o += 4 {
			x, y := binary.LittleEndian.Uint32(ba[i].Data[o:]), binary.LittleEndian.Uint32(bb[i].Data[o:])
			if x == y {
				continue
			}
			if first < 0 {
				first = o
			}
			n++
			if !w.Integer {
				d := math.Abs(float64(math.Float32frombits(x)) - float64(math.Float32frombits(y)))
				if d > maxd || math.IsNaN(d) {
					maxd = d
				}
			}
		}
		if w.Integer || maxd > w.Tol || math.IsNaN(maxd) {
			withinTol = false
		}
		fmt.Fprintf(&sb, "%s: %d of %d words differ, first at byte offset %d: 1-GPU %#08x, spread %#08x", ba[i].Name, n, len(ba[i].Data)/4, first,
			binary.LittleEndian.Uint32(ba[i].Data[first:]), binary.LittleEndian.Uint32(bb[i].Data[first:]))
		if !w.Integer {
			fmt.Fprintf(&sb, " (as float32: %g vs %g; max |diff| %g, workload tolerance %g)",
				math.Float32frombits(binary.LittleEndian.Uint32(ba[i].Data[first:])), math.Float32frombits(binary.LittleEndian.Uint32(bb[i].Data[first:])), maxd, w.Tol)
		}
		sb.WriteString("\n")
	}
	return equal, withinTol, sb.String()
}

func c18aSig(c Case, what string) string {
	if strings.HasPrefix(what, "run-failed:") {
		// a run that dies: symptom first, so that one root cause is one (prefix) signature
		return fmt.Sprintf("lattice/run-failed/%s/%s/%s/%s/%s", strings.TrimPrefix(what, "run-failed:"), c.Platform(), c.Workload, c.Arch, c.GPUClass())
	}
	return fmt.Sprintf("lattice/%s/%s/%s/%s", c.Workload, c.Arch, c.GPUClass(), what)
}

// RunC18a is part (a) of C18: the configuration lattice. It only adds coverage
// keys prefixed "lattice_" and reports violations with signatures prefixed
// "lattice/"; it never calls r.Finish and never exits - except in replay mode
// when the replay file is one of its own (kind "c18a"), where it prints the
// verdict and exits 0/1/2 as the replay contract demands. The caller's main()
// must start with platlat.MaybeWorker().
func RunC18a(r *harness.Run) {
	if r.Replay != "" {
		replayC18a(r)
		return
	}
	t0 := time.Now()
	m := LoadMatrix()
	cases, refs, skipped := m.C18aCases(r.Thorough())
	cap := 5 * time.Minute
	if r.Thorough() {
		cap = 15 * time.Minute
	}
	outs := make([]Outcome, len(cases))
	var mu sync.Mutex
	st := RunAll(cases, runtime.NumCPU(), cap, r.Deadline(), func(i int, o Outcome) {
		mu.Lock()
		outs[i] = o
		mu.Unlock()
	})
	CleanScratch()

	type grp struct {
		first C18aPair
		msg   string
		names []string
	}
	groups := map[string]*grp{}
	add := func(sig string, p C18aPair, msg string) {
		g := groups[sig]
		if g == nil {
			g = &grp{first: p, msg: msg}
			groups[sig] = g
		}
		g.names = append(g.names, p.Case.Name())
	}
	compared, equalN, undecided, tolOnly := 0, 0, 0, 0
	var undecidedNames []string
	classes := map[string]bool{}
	var samples []any
	var refFailed []string
	for i, c := range cases {
		o := outs[i]
		pair := C18aPair{Kind: "c18a", Ref: cases[refs[i]], Case: c}
		switch o.Status {
		case "":
			undecided++ // not started (deadline)
			continue
		case "ok":
		case "capped", "infra", "lostwakeup":
			undecided++
			undecidedNames = append(undecidedNames, c.Name()+": "+o.Status+" "+o.Symptom)
			continue
		default:
			ro := outs[refs[i]]
			if refs[i] == i || (ro.Status == o.Status && ro.Symptom == o.Symptom) {
				// the single-GPU run fails (the same way): not a question of spread (C01's subject)
				undecided++
				undecidedNames = append(undecidedNames, c.Name()+": "+o.Status+" "+o.Symptom)
				refFailed = append(refFailed, c.Name()+": "+o.Symptom)
				continue
			}
			add(c18aSig(c, "run-failed:"+o.Symptom), pair, fmt.Sprintf("the run itself failed in stage %s (the 1-GPU run: %s %s):\n%s", o.Stage, ro.Status, ro.Symptom, o.Detail))
			continue
		}
		if refs[i] == i {
			continue
		}
		ro := outs[refs[i]]
		if ro.Status != "ok" {
			undecided++
			undecidedNames = append(undecidedNames, c.Name()+": "+o.Status+" "+o.Symptom)
			continue
		}
		compared++
		w := Lookup(c.Workload)
		if len(w.Outputs) == 0 {
			tolOnly++ // both runs passed the operator's own GPU-vs-CPU comparison
			classes[fmt.Sprintf("%s/%s/%s/%s", c.Workload, c.Arch, c.GPUSet(), c.Platform())] = true
			continue
		}
		eq, tol, msg := compareOutputs(w, ro.Res, o.Res)
		if eq {
			equalN++
			classes[fmt.Sprintf("%s/%s/%s/%s", c.Workload, c.Arch, c.GPUSet(), c.Platform())] = true
			if len(samples) < 6 && compared%23 == 1 {
				n := 0
				for _, b := range blobs(o.Res) {
					n += len(b.Data)
				}
				samples = append(samples, map[string]any{"reference": pair.Ref.Name(), "spread": c.Name(), "output_bytes_compared": n, "verdict": "bit-identical"})
			}
			continue
		}
		what := "output-differs-from-1gpu-run"
		if tol {
			what = "output-differs-from-1gpu-run-within-tolerance"
		}
		add(c18aSig(c, what), pair, msg)
	}
	sigs := make([]string, 0, len(groups))
	for s := range groups {
		sigs = append(sigs, s)
	}
	sort.Strings(sigs)
	for _, s := range sigs {
		g := groups[s]
		show := g.names
		if len(show) > 6 {
			show = append(append([]string{}, show[:6]...), fmt.Sprintf("… (%d lattice points)", len(g.names)))
		}
		r.Report(s, fmt.Sprintf("%d lattice point(s):\n%s\nfirst: %s vs reference %s\n%s", len(g.names), strings.Join(show, "\n"),
			g.first.Case.Name(), g.first.Ref.Name(), g.msg), g.first)
	}
	r.Cov["lattice_runs"] = st.Executed
	r.Cov["lattice_points"] = len(cases)
	r.Cov["lattice_comparisons"] = compared
	r.Cov["lattice_bit_identical"] = equalN
	r.Cov["lattice_within_workload_tolerance_only"] = tolOnly
	r.Cov["lattice_distinct_classes_identical"] = len(classes)
	r.Cov["lattice_differing_signatures"] = len(sigs)
	r.Cov["lattice_undecided"] = undecided
	r.Cov["lattice_undecided_cases"] = undecidedNames
	r.Cov["lattice_single_gpu_run_fails_too"] = refFailed
	r.Cov["lattice_inadmissible_skipped"] = skipped
	r.Cov["lattice_flaky"] = st.Flaky
	r.Cov["lattice_driver_races_in_pool"] = st.LostWakeups
	r.Cov["lattice_capped"] = st.Capped
	r.Cov["lattice_samples"] = samples
	r.Cov["lattice_wall_s"] = time.Since(t0).Seconds()
	r.Cov["lattice_exhaustive"] = undecided == len(refFailed) && len(st.Flaky) == 0 && st.NotStarted == 0
	r.Cov["lattice_rule"] = "one comparison = the output buffers of one (workload, size, arch, mode) run on a GPU set {u1, g12, g1234, u12, u1234} compared bit for bit with the run on GPU 1 alone, same inputs (math/rand seeded); outputs are read back through Driver.MemCopyD2H after the run"
	fmt.Printf("C18a lattice: %d runs, %d comparisons, %d bit-identical, %d differing signature(s), %d undecided, %.0fs\n",
		st.Executed, compared, equalN, len(sigs), undecided, time.Since(t0).Seconds())
}

func replayC18a(r *harness.Run) {
	data, err := os.ReadFile(r.Replay)
	if err != nil {
		return
	}
	var f struct {
		Signature string   `json:"signature"`
		Case      C18aPair `json:"case"`
	}
	if json.Unmarshal(data, &f) != nil || f.Case.Kind != "c18a" {
		return // not ours
	}
	ref := Exec(f.Case.Ref, 15*time.Minute)
	o := Exec(f.Case.Case, 15*time.Minute)
	fmt.Printf("replay reference %s: %s %s\nreplay spread    %s: %s %s\n", f.Case.Ref.Name(), ref.Status, ref.Symptom, f.Case.Case.Name(), o.Status, o.Symptom)
	if o.Status == "fail" || o.Status == "hang" {
		fmt.Printf("VIOLATION property=%s replay=%s\n  signature: %s\n%s\n", r.ID, r.Replay, c18aSig(f.Case.Case, "run-failed:"+o.Symptom), o.Detail)
		os.Exit(1)
	}
	if ref.Status != "ok" || o.Status != "ok" {
		fmt.Println("INFRASTRUCTURE ERROR: replay runs did not complete")
		os.Exit(2)
	}
	eq, tol, msg := compareOutputs(Lookup(f.Case.Case.Workload), ref.Res, o.Res)
	if eq {
		fmt.Println("replay: no violation (outputs bit-identical)")
		os.Exit(0)
	}
	what := "output-differs-from-1gpu-run"
	if tol {
		what += "-within-tolerance"
	}
	fmt.Printf("VIOLATION property=%s replay=%s\n  signature: %s\n%s\n", r.ID, r.Replay, c18aSig(f.Case.Case, what), msg)
	os.Exit(1)
}
