package gcn3enc

import (
	"crypto/sha256"
	"encoding/hex"
	"sort"
)

// Group is one enumeration group of an opcode: a deterministic list of
// descriptions. Validated groups are checked against llvm-mc by cmd/gengolden;
// unvalidated ones (Validated=false: the full domain of a wide immediate) rely
// on the field having been validated on its boundary/walking-ones alphabet.
type Group struct {
	Name      string
	Validated bool
	Thorough  bool // only enumerated in the thorough tier
	Descs     []Desc
	// unvalidated full-domain groups are generated lazily: base.With(XField, v)
	// for v in 0..XMax
	XBase  Desc
	XField string
	XMax   uint32
}

// Len is the number of descriptions of the group.
func (g *Group) Len() int {
	if g.XField != "" {
		return int(g.XMax) + 1
	}
	return len(g.Descs)
}

// Each calls f for every description of the group.
func (g *Group) Each(f func(i int, d Desc)) {
	if g.XField != "" {
		d := g.XBase.Clone()
		for v := uint32(0); ; v++ {
			d.F[g.XField] = v
			f(int(v), d)
			if v == g.XMax {
				return
			}
		}
	}
	for i, d := range g.Descs {
		f(i, d)
	}
}

// Literal alphabet: none of these is an inline constant in any interpretation
// (integer -16..64, or the bit pattern of an inline float in f16/f32/f64-high).
var Literals = []uint32{0x12345678, 0x80000000, 0xdeadbeef, 0x00000041, 0xffffff00, 0x7fffffff, 0x3f000001, 0x00010000}

func alphabet(class string, f Field) []uint32 {
	switch class {
	case "ssrc":
		return []uint32{0, 1, 2, 100, 101, 102, 103, 106, 107, 112, 122, 124, 126, 127, 128, 129, 192, 193, 208, 240, 247, 248, 251, 252, 253}
	case "sdst", "vsdst":
		return []uint32{0, 1, 2, 100, 101, 102, 106, 107, 112, 122, 124, 126, 127}
	case "src9":
		return []uint32{0, 2, 100, 101, 106, 124, 126, 128, 129, 192, 193, 208, 240, 248, 253, 256, 257, 258, 383, 384, 510, 511}
	case "vgpr":
		return []uint32{0, 1, 2, 127, 128, 252, 254, 255}
	case "sbase":
		return []uint32{0, 1, 2, 49, 50, 51, 53, 63}
	case "saddr":
		return []uint32{0, 2, 100, 106, 126, 0x7f}
	}
	return immAlphabet(f)
}

func immAlphabet(f Field) []uint32 {
	n := f.Bits()
	if n <= 4 {
		var l []uint32
		for v := uint32(0); v <= f.Max(); v++ {
			l = append(l, v)
		}
		return l
	}
	set := map[uint32]bool{0: true, 1: true, 2: true, f.Max(): true, f.Max() - 1: true, f.Max() >> 1: true, f.Max()>>1 + 1: true}
	for i := 0; i < n; i++ {
		set[1<<uint(i)] = true
	}
	var l []uint32
	for v := range set {
		l = append(l, v)
	}
	sort.Slice(l, func(i, j int) bool { return l[i] < l[j] })
	return l
}

// enumField is a field that is varied, with its interpretation class.
type enumField struct {
	f     Field
	class string
	ext   bool // field of the SDWA dword
}

func (r *Row) enumFields() []enumField {
	l := LayoutOf(r.Arch, r.Fmt)
	var out []enumField
	for _, o := range r.Operands {
		if o.Field == "literal" {
			continue
		}
		f, ok := l.Field(o.Field)
		if !ok {
			continue
		}
		out = append(out, enumField{f, o.Class, false})
	}
	for _, m := range modifierFields(r.Fmt, r.Arch) {
		f, _ := l.Field(m)
		out = append(out, enumField{f, "mod", false})
	}
	if r.Fmt == "VOP3a" {
		for _, m := range []string{"abs", "neg"} {
			f, _ := l.Field(m)
			out = append(out, enumField{f, "mod", false})
		}
	}
	if r.Fmt == "VOP3b" {
		f, _ := l.Field("neg")
		out = append(out, enumField{f, "mod", false})
	}
	if r.Fmt == "DS" && r.DSOff != "" {
		for _, m := range []string{"offset0", "offset1"} {
			f, _ := l.Field(m)
			out = append(out, enumField{f, "imm", false})
		}
	}
	return out
}

func canSDWA(r *Row) bool {
	if r.Fmt != "VOP1" && r.Fmt != "VOP2" && r.Fmt != "VOPC" {
		return false
	}
	return r.Operand("src0") != nil && !r.AlwaysLit
}

func literalFields(r *Row) []string {
	var out []string
	for _, o := range r.Operands {
		if o.Class == "ssrc" || (o.Class == "src9" && (r.Fmt == "VOP1" || r.Fmt == "VOP2" || r.Fmt == "VOPC")) {
			out = append(out, o.Field)
		}
	}
	return out
}

// SDWABase is the base description of the SDWA form of a row.
func (r *Row) SDWABase() Desc {
	d := r.Base.Clone()
	d.Ext = "sdwa"
	d.F["src0"] = 249
	d.F["sdwa_src0"] = 32
	d.F["dst_sel"], d.F["src0_sel"], d.F["src1_sel"] = 6, 6, 6
	if r.Operand("vdst") == nil { // VOPC: no vector destination
		d.F["dst_sel"] = 0
	}
	if r.Operand("vsrc1") == nil {
		d.F["src1_sel"] = 0
	}
	return d
}

// Groups returns the enumeration groups of an opcode in a fixed order.
func (r *Row) Groups() []Group {
	var gs []Group
	efs := r.enumFields()
	// one field at a time over its full domain
	for _, ef := range efs {
		g := Group{Name: "F:" + ef.f.Name, Validated: true}
		if ef.f.Bits() > 10 {
			for _, v := range immAlphabet(ef.f) {
				g.Descs = append(g.Descs, r.Base.With(ef.f.Name, v))
			}
			gs = append(gs, g)
			// full domain of a wide immediate: GFX803 in both tiers (<= 16 bits),
			// the identical GFX9 formats only in the thorough tier
			x := Group{Name: "X:" + ef.f.Name, Validated: false, Thorough: ef.f.Bits() > 16 || (r.Arch == GFX90A && ef.f.Bits() > 13),
				XBase: r.Base, XField: ef.f.Name, XMax: ef.f.Max()}
			gs = append(gs, x)
			continue
		}
		for v := uint32(0); v <= ef.f.Max(); v++ {
			g.Descs = append(g.Descs, r.Base.With(ef.f.Name, v))
		}
		gs = append(gs, g)
	}
	if r.Fmt == "SMEM" && r.Operand("offset") != nil {
		// SGPR offset form (IMM = 0)
		g := Group{Name: "F:soffset", Validated: true}
		for v := uint32(0); v < 260; v++ {
			g.Descs = append(g.Descs, r.Base.With("imm", 0).With("offset", v))
		}
		gs = append(gs, g)
	}
	// literal forms
	if !r.AlwaysLit {
		for _, lf := range literalFields(r) {
			g := Group{Name: "L:" + lf, Validated: true}
			for _, lit := range Literals {
				d := r.Base.With(lf, 255)
				d.Ext = "lit"
				d.F["literal"] = lit
				g.Descs = append(g.Descs, d)
			}
			gs = append(gs, g)
		}
	} else {
		g := Group{Name: "L:literal", Validated: true}
		for _, lit := range Literals {
			g.Descs = append(g.Descs, r.Base.With("literal", lit))
		}
		gs = append(gs, g)
	}
	// SDWA forms
	if canSDWA(r) {
		sb := r.SDWABase()
		sl := LayoutOf(r.Arch, "SDWA")
		for _, f := range sl.Fields {
			if sdwaSkip(r, f.Name) {
				continue
			}
			g := Group{Name: "S:" + f.Name, Validated: true}
			for v := uint32(0); v <= f.Max(); v++ {
				g.Descs = append(g.Descs, sb.With(f.Name, v))
			}
			gs = append(gs, g)
		}
		for _, name := range []string{"vsrc1", "vdst"} {
			if r.Operand(name) == nil {
				continue
			}
			g := Group{Name: "S:" + name, Validated: true}
			for v := uint32(0); v < 256; v++ {
				g.Descs = append(g.Descs, sb.With(name, v))
			}
			gs = append(gs, g)
		}
		// pairs of SDWA fields over small alphabets
		g := Group{Name: "SP", Validated: true}
		for i := 0; i < len(sl.Fields); i++ {
			for j := i + 1; j < len(sl.Fields); j++ {
				if sdwaSkip(r, sl.Fields[i].Name) || sdwaSkip(r, sl.Fields[j].Name) {
					continue
				}
				for _, a := range sdwaAlpha(sl.Fields[i]) {
					for _, b := range sdwaAlpha(sl.Fields[j]) {
						g.Descs = append(g.Descs, sb.With(sl.Fields[i].Name, a).With(sl.Fields[j].Name, b))
					}
				}
			}
		}
		gs = append(gs, g)
	}
	// all pairs of fields over boundary alphabets
	g := Group{Name: "P", Validated: true}
	for i := 0; i < len(efs); i++ {
		for j := i + 1; j < len(efs); j++ {
			for _, a := range alphabet(efs[i].class, efs[i].f) {
				for _, b := range alphabet(efs[j].class, efs[j].f) {
					g.Descs = append(g.Descs, r.Base.With(efs[i].f.Name, a).With(efs[j].f.Name, b))
				}
			}
		}
	}
	if len(g.Descs) > 0 {
		gs = append(gs, g)
	}
	return gs
}

// sdwaSkip: on GFX9 the VOPC SDWA dword has SDST/SD in place of DST_SEL,
// DST_UNUSED, CLAMP and OMOD; those bits are kept zero (destination = VCC).
func sdwaSkip(r *Row, field string) bool {
	if r.Arch == GFX90A && r.Fmt == "VOPC" {
		switch field {
		case "dst_sel", "dst_unused", "sdwa_clamp", "sdwa_omod":
			return true
		}
	}
	return false
}

func sdwaAlpha(f Field) []uint32 {
	switch f.Name {
	case "sdwa_src0":
		return []uint32{0, 1, 128, 255}
	case "dst_sel", "src0_sel", "src1_sel":
		return []uint32{0, 3, 4, 5, 6}
	}
	var l []uint32
	for v := uint32(0); v <= f.Max(); v++ {
		l = append(l, v)
	}
	return l
}

// HashGroup hashes the confirmed rows of a group: bytes and expectation key.
func (r *Row) HashGroup(g *Group, accepted func(i int) bool) string {
	h := sha256.New()
	for i, d := range g.Descs {
		if !accepted(i) {
			continue
		}
		b, err := d.Encode()
		if err != nil {
			h.Write([]byte("ERR"))
			continue
		}
		e, ok := r.Expect(d)
		h.Write(b)
		if ok {
			h.Write([]byte(e.Key()))
		} else {
			h.Write([]byte("!"))
		}
		h.Write([]byte{0})
	}
	return hex.EncodeToString(h.Sum(nil))
}
