package gcn3enc

import (
	"bytes"
	"fmt"
	"strconv"
	"strings"
)

var selNames = []string{"BYTE_0", "BYTE_1", "BYTE_2", "BYTE_3", "WORD_0", "WORD_1", "DWORD"}
var unusedNames = []string{"UNUSED_PAD", "UNUSED_SEXT", "UNUSED_PRESERVE"}

// Validate compares one description with llvm-mc's reading of its bytes.
// Result "" = confirmed. "reject:..." = llvm-mc does not regard the bytes as
// this canonical instruction (the description is left out of the round-trip
// domain). "MISMATCH:..." = llvm-mc reads the bytes as this instruction but
// disagrees with this package's interpretation: a transcription error here,
// to be fixed before the table is used.
func Validate(r *Row, d Desc, enc []byte, lines []*AsmLine) string {
	e, ok := r.Expect(d)
	if len(lines) != 1 || len(lines[0].Bytes) != len(enc) {
		if !ok {
			return "reject:both (reserved by the reference tables and invalid for llvm-mc)"
		}
		return "reject:llvm-only (tables say well-formed, llvm-mc says invalid)"
	}
	al := lines[0]
	if !bytes.Equal(al.Bytes, enc) {
		return "reject:not canonical (llvm-mc re-encodes differently)"
	}
	if Stem(al.Mnemonic) != Stem(r.Mnemonic) {
		return "MISMATCH:mnemonic " + al.Mnemonic + " vs " + r.Mnemonic
	}
	if !ok {
		return "reject:tables-only (llvm-mc decodes it, the reference tables call it reserved/misaligned)"
	}
	if r.Opaque {
		return ""
	}
	if d.Fmt == "SOPP" && (len(al.Ops) != len(r.Pattern) || (len(al.Ops) == 1 && ParseOperand(al.Ops[0]).Opaque)) {
		// s_endpgm 0 prints no operand, s_sendmsg prints sendmsg(...): the
		// 16-bit immediate is confirmed by llvm-mc's byte-exact re-encoding
		return ""
	}
	if len(al.Ops) != len(r.Pattern) {
		return fmt.Sprintf("MISMATCH:operand count %d vs pattern %d (%s)", len(al.Ops), len(r.Pattern), al.Text)
	}
	for i, o := range r.Operands {
		x := e.Ops[i]
		if o.Pos < 0 {
			if o.Field == "offset" && d.Fmt != "SMEM" {
				got := int64(0)
				if s, ok := al.Mods["offset"]; ok {
					v, err := strconv.ParseInt(s, 0, 64)
					if err != nil {
						return "MISMATCH:offset syntax " + s
					}
					got = v
				}
				if got != x.Int {
					return fmt.Sprintf("MISMATCH:offset %d vs expected %d", got, x.Int)
				}
			}
			continue
		}
		p := ParseOperand(al.Ops[o.Pos])
		if p.Opaque {
			if x.Kind == "off" && al.Ops[o.Pos] == "off" {
				continue
			}
			return "MISMATCH:operand syntax " + al.Ops[o.Pos]
		}
		if x.Kind == "int" && p.Kind == "lit" && int64(p.Lit) == x.Int {
			// immediates print as hex
		} else if x.Kind == "int" && p.Kind == "float" && d.Fmt != "SOPK" && d.Fmt != "SOPP" {
			// llvm-mc prints integer inline constants of FP operands as integers, floats as floats
			return fmt.Sprintf("MISMATCH:%s expected %s got %s", o.Field, x.Opnd, al.Ops[o.Pos])
		} else if x.Kind == "lit" && p.Kind == "lit" && p.Lit == x.Lit&0xffff {
			// llvm-mc prints the low half of a literal used by a 16-bit operand
		} else if !SameOpnd(x.Opnd, p.Opnd) {
			return fmt.Sprintf("MISMATCH:%s expected %s got %s (%s)", o.Field, x.Opnd, al.Ops[o.Pos], al.Text)
		}
		if p.Neg != x.Neg || p.Abs != x.Abs || p.Sext != x.Sext {
			// an inline constant with neg/abs prints folded or with neg(); treat as not canonical
			if x.Kind == "int" || x.Kind == "float" {
				return "reject:source modifier on a constant"
			}
			if (!p.Neg || x.Neg) && (!p.Abs || x.Abs) && (d.Fmt == "VOP3a" || d.Fmt == "VOP3b") {
				// llvm-mc shows fewer FP modifiers than the bits that are set:
				// the operand is integer-typed, NEG/ABS do not apply to it
				return "reject:source modifier on an integer operand"
			}
			return fmt.Sprintf("MISMATCH:%s modifiers expected neg=%v abs=%v sext=%v got %s", o.Field, x.Neg, x.Abs, x.Sext, al.Ops[o.Pos])
		}
	}
	for i, pat := range r.Pattern {
		if !strings.HasPrefix(pat, "@") && pat != al.Ops[i] {
			return fmt.Sprintf("MISMATCH:fixed operand %q vs %q", pat, al.Ops[i])
		}
	}
	// modifiers
	flag := func(name, key string) string {
		want := e.Mods[name] == 1
		_, got := al.Mods[key]
		if want != got {
			return fmt.Sprintf("MISMATCH:%s=%d but text %q", name, e.Mods[name], al.Text)
		}
		return ""
	}
	for name := range e.Mods {
		var s string
		switch name {
		case "glc", "slc", "tfe", "gds", "clamp", "nv", "lds":
			s = flag(name, name)
		case "sdwa_clamp":
			s = flag(name, "clamp")
		case "omod", "sdwa_omod":
			want := map[uint32]string{0: "", 1: "mul:2", 2: "mul:4", 3: "div:2"}[e.Mods[name]]
			got := ""
			if v, ok := al.Mods["mul"]; ok {
				got = "mul:" + v
			}
			if v, ok := al.Mods["div"]; ok {
				got = "div:" + v
			}
			if want != got {
				s = fmt.Sprintf("MISMATCH:omod=%d but text %q", e.Mods[name], al.Text)
			}
		case "offset0", "offset1", "offset":
			got := uint64(0)
			if v, ok := al.Mods[name]; ok {
				var err error
				got, err = strconv.ParseUint(v, 0, 32)
				if err != nil {
					s = "MISMATCH:offset syntax " + v
				}
			}
			if s == "" && uint32(got) != e.Mods[name] {
				s = fmt.Sprintf("MISMATCH:%s=%d but text %q", name, e.Mods[name], al.Text)
			}
		case "dst_sel", "src0_sel", "src1_sel":
			if v, ok := al.Mods[name]; ok && v != selNames[e.Mods[name]] {
				s = fmt.Sprintf("MISMATCH:%s=%d but text %q", name, e.Mods[name], al.Text)
			} else if !ok && !sdwaFieldUnused(r, name) {
				s = fmt.Sprintf("MISMATCH:%s missing in %q", name, al.Text)
			}
		case "dst_unused":
			if v, ok := al.Mods[name]; ok && v != unusedNames[e.Mods[name]] {
				s = fmt.Sprintf("MISMATCH:%s=%d but text %q", name, e.Mods[name], al.Text)
			} else if !ok && !sdwaFieldUnused(r, name) {
				s = fmt.Sprintf("MISMATCH:%s missing in %q", name, al.Text)
			}
		case "op_sel", "neg", "neg_hi":
			if d.Fmt == "VOP3P" {
				key := map[string]string{"op_sel": "op_sel", "neg": "neg_lo", "neg_hi": "neg_hi"}[name]
				got, ok := listMod(al.Mods[key])
				if !ok || got != e.Mods[name] {
					s = fmt.Sprintf("MISMATCH:%s=%d but text %q", name, e.Mods[name], al.Text)
				}
			}
		case "op_sel_hi":
			want := e.Mods["op_sel_hi"] | e.Mods["op_sel_hi2"]<<2
			got := uint32(7)
			if t, present := al.Mods["op_sel_hi"]; present {
				var ok bool
				got, ok = listMod(t)
				if !ok {
					s = "MISMATCH:op_sel_hi syntax " + t
				}
			}
			nsrc := uint32(0)
			for _, o := range r.Operands {
				if _, isSrc := srcIndex[o.Field]; isSrc {
					nsrc++
				}
			}
			mask := uint32(1)<<nsrc - 1
			if s == "" && got&mask != want&mask {
				s = fmt.Sprintf("MISMATCH:op_sel_hi=%d but text %q", want, al.Text)
			} else if want&^mask != 0 && nsrc < 3 && want&^mask != 7&^mask {
				s = "reject:op_sel_hi bits of an absent source"
			}
		case "imm", "soe", "op_sel_hi2":
			// visible through the operand form
		}
		if s != "" {
			return s
		}
	}
	return ""
}

func sdwaFieldUnused(r *Row, name string) bool {
	switch name {
	case "dst_sel", "dst_unused":
		return r.Operand("vdst") == nil || r.Operand("vdst").Class == "vsdst"
	case "src1_sel":
		return r.Operand("vsrc1") == nil
	}
	return false
}

// listMod parses "[1,0,1]" into bits (element i = bit i); "" = 0.
func listMod(t string) (uint32, bool) {
	if t == "" {
		return 0, true
	}
	if !strings.HasPrefix(t, "[") || !strings.HasSuffix(t, "]") {
		return 0, false
	}
	var v uint32
	for i, p := range strings.Split(t[1:len(t)-1], ",") {
		switch strings.TrimSpace(p) {
		case "1":
			v |= 1 << uint(i)
		case "0":
		default:
			return 0, false
		}
	}
	return v, true
}
