// Package gcn3enc is an independent, field-level encoder for the GCN3 (gfx803)
// instruction formats SOP1/SOP2/SOPC/SOPK/SOPP, SMEM, VOP1/VOP2/VOPC (plain,
// literal and SDWA forms), VOP3a/VOP3b, DS and FLAT, plus the GFX9-family
// variants (gfx90a is the reference available in LLVM 14) of the formats in
// which the simulator's decoder has CDNA3-specific behaviour (FLAT/GLOBAL/
// SCRATCH, SDWA, SMEM).
//
// The bit layouts are transcribed from chapter 13 "Microcode Formats" of
// docs/gcn3-instruction-set-architecture.pdf (pages 13-3 .. 13-64). The encoder
// has NO per-opcode logic: an instruction description is a format, an opcode
// number and raw field values. Everything that is opcode specific (mnemonic,
// which fields an opcode uses, the register width of each operand) comes from
// testdata/optable_<arch>.tsv, which is derived from `llvm-mc-14 -disassemble`
// by cmd/gengolden, and every enumeration group the check uses is validated
// against llvm-mc by the same tool (testdata/groups_<arch>.tsv holds, per
// group, the bitmap of rows llvm-mc confirmed and a hash of bytes+expected
// interpretation, which the check recomputes at start-up).
//
// Known error in the PDF that llvm-mc corrected: section 13.9 lists the FLAT
// opcodes with the Sea-Islands numbering (FLAT_LOAD_DWORD = 12); gfx803 uses
// 16..23 for loads and 24..31 for stores (FLAT_LOAD_DWORD = 20). Opcode numbers
// are never taken from the PDF here, only field positions.
package gcn3enc

import (
	"encoding/binary"
	"fmt"
	"sort"
)

// Arch selects the reference ISA.
type Arch string

const (
	GFX803 Arch = "gfx803"
	GFX90A Arch = "gfx90a"
)

// Field is a bit field of one instruction dword.
type Field struct {
	Name   string
	DW     int // dword index
	Lo, Hi int // inclusive bit positions inside the dword
}

// Bits is the width of the field.
func (f Field) Bits() int { return f.Hi - f.Lo + 1 }

// Max is the largest field value.
func (f Field) Max() uint32 { return uint32(uint64(1)<<uint(f.Bits()) - 1) }

// Layout is one microcode format.
type Layout struct {
	Name   string
	Enc    uint32 // fixed ENCODING bits (dword 0)
	Mask   uint32
	Dwords int
	Op     Field
	Fields []Field
}

// Field looks a field up by name.
func (l *Layout) Field(name string) (Field, bool) {
	for _, f := range l.Fields {
		if f.Name == name {
			return f, true
		}
	}
	return Field{}, false
}

func f0(name string, hi, lo int) Field { return Field{name, 0, lo, hi} }
func f1(name string, hi, lo int) Field { return Field{name, 1, lo - 32, hi - 32} }

// sdwaLayout is the second dword of VOP1/VOP2/VOPC SDWA forms (13-40).
func sdwaLayout(a Arch) *Layout {
	l := &Layout{Name: "SDWA", Dwords: 1, Fields: []Field{
		f0("sdwa_src0", 7, 0), f0("dst_sel", 10, 8), f0("dst_unused", 12, 11), f0("sdwa_clamp", 13, 13),
		f0("src0_sel", 18, 16), f0("src0_sext", 19, 19), f0("src0_neg", 20, 20), f0("src0_abs", 21, 21),
		f0("src1_sel", 26, 24), f0("src1_sext", 27, 27), f0("src1_neg", 28, 28), f0("src1_abs", 29, 29),
	}}
	if a == GFX90A {
		// Vega/CDNA ISA: OMOD[15:14], S0 = bit 23, S1 = bit 31 (SDWA9)
		l.Fields = append(l.Fields, f0("sdwa_omod", 15, 14), f0("s0", 23, 23), f0("s1", 31, 31))
	}
	return l
}

// Layouts returns the format table of an architecture.
func Layouts(a Arch) map[string]*Layout {
	m := map[string]*Layout{}
	add := func(l *Layout) { m[l.Name] = l }
	add(&Layout{Name: "SOP2", Enc: 0x80000000, Mask: 0xC0000000, Dwords: 1, Op: f0("op", 29, 23),
		Fields: []Field{f0("ssrc0", 7, 0), f0("ssrc1", 15, 8), f0("sdst", 22, 16)}})
	add(&Layout{Name: "SOPK", Enc: 0xB0000000, Mask: 0xF0000000, Dwords: 1, Op: f0("op", 27, 23),
		Fields: []Field{f0("simm16", 15, 0), f0("sdst", 22, 16)}})
	add(&Layout{Name: "SOP1", Enc: 0xBE800000, Mask: 0xFF800000, Dwords: 1, Op: f0("op", 15, 8),
		Fields: []Field{f0("ssrc0", 7, 0), f0("sdst", 22, 16)}})
	add(&Layout{Name: "SOPC", Enc: 0xBF000000, Mask: 0xFF800000, Dwords: 1, Op: f0("op", 22, 16),
		Fields: []Field{f0("ssrc0", 7, 0), f0("ssrc1", 15, 8)}})
	add(&Layout{Name: "SOPP", Enc: 0xBF800000, Mask: 0xFF800000, Dwords: 1, Op: f0("op", 22, 16),
		Fields: []Field{f0("simm16", 15, 0)}})
	smem := &Layout{Name: "SMEM", Enc: 0xC0000000, Mask: 0xFC000000, Dwords: 2, Op: f0("op", 25, 18),
		Fields: []Field{f0("sbase", 5, 0), f0("sdata", 12, 6), f0("glc", 16, 16), f0("imm", 17, 17), f1("offset", 51, 32)}}
	if a == GFX90A {
		smem.Fields = []Field{f0("sbase", 5, 0), f0("sdata", 12, 6), f0("soe", 14, 14), f0("nv", 15, 15), f0("glc", 16, 16), f0("imm", 17, 17),
			f1("offset", 52, 32), f1("soffset", 63, 57)}
	}
	add(smem)
	add(&Layout{Name: "VOP2", Enc: 0x00000000, Mask: 0x80000000, Dwords: 1, Op: f0("op", 30, 25),
		Fields: []Field{f0("src0", 8, 0), f0("vsrc1", 16, 9), f0("vdst", 24, 17)}})
	add(&Layout{Name: "VOP1", Enc: 0x7E000000, Mask: 0xFE000000, Dwords: 1, Op: f0("op", 16, 9),
		Fields: []Field{f0("src0", 8, 0), f0("vdst", 24, 17)}})
	add(&Layout{Name: "VOPC", Enc: 0x7C000000, Mask: 0xFE000000, Dwords: 1, Op: f0("op", 24, 17),
		Fields: []Field{f0("src0", 8, 0), f0("vsrc1", 16, 9)}})
	v3a := []Field{f0("vdst", 7, 0), f0("abs", 10, 8), f0("clamp", 15, 15),
		f1("src0", 40, 32), f1("src1", 49, 41), f1("src2", 58, 50), f1("omod", 60, 59), f1("neg", 63, 61)}
	if a == GFX90A {
		v3a = append(v3a, f0("op_sel", 14, 11))
	}
	add(&Layout{Name: "VOP3a", Enc: 0xD0000000, Mask: 0xFC000000, Dwords: 2, Op: f0("op", 25, 16), Fields: v3a})
	add(&Layout{Name: "VOP3b", Enc: 0xD0000000, Mask: 0xFC000000, Dwords: 2, Op: f0("op", 25, 16),
		Fields: []Field{f0("vdst", 7, 0), f0("sdst", 14, 8), f0("clamp", 15, 15),
			f1("src0", 40, 32), f1("src1", 49, 41), f1("src2", 58, 50), f1("omod", 60, 59), f1("neg", 63, 61)}})
	add(&Layout{Name: "DS", Enc: 0xD8000000, Mask: 0xFC000000, Dwords: 2, Op: f0("op", 24, 17),
		Fields: []Field{f0("offset0", 7, 0), f0("offset1", 15, 8), f0("gds", 16, 16),
			f1("addr", 39, 32), f1("data0", 47, 40), f1("data1", 55, 48), f1("vdst", 63, 56)}})
	if a == GFX803 {
		add(&Layout{Name: "FLAT", Enc: 0xDC000000, Mask: 0xFC000000, Dwords: 2, Op: f0("op", 24, 18),
			Fields: []Field{f0("glc", 16, 16), f0("slc", 17, 17), f1("addr", 39, 32), f1("data", 47, 40), f1("tfe", 55, 55), f1("vdst", 63, 56)}})
	} else {
		// GFX9 family: OFFSET[12:0], LDS[13], SEG[15:14], SADDR[54:48]; bit 55 is NV on
		// gfx900 but ACC (AGPR select) on gfx90a/gfx940: never set by this package
		for _, s := range []struct {
			n   string
			seg uint32
		}{{"FLAT", 0}, {"SCRATCH", 1}, {"GLOBAL", 2}} {
			add(&Layout{Name: s.n, Enc: 0xDC000000 | s.seg<<14, Mask: 0xFC00C000, Dwords: 2, Op: f0("op", 24, 18),
				Fields: []Field{f0("offset", 12, 0), f0("lds", 13, 13), f0("glc", 16, 16), f0("slc", 17, 17),
					f1("addr", 39, 32), f1("data", 47, 40), f1("saddr", 54, 48), f1("acc", 55, 55), f1("vdst", 63, 56)}})
		}
		// VOP3P (packed math): ENCODING[31:23] = 110100111, OP[22:16]
		add(&Layout{Name: "VOP3P", Enc: 0xD3800000, Mask: 0xFF800000, Dwords: 2, Op: f0("op", 22, 16),
			Fields: []Field{f0("vdst", 7, 0), f0("neg_hi", 10, 8), f0("op_sel", 13, 11), f0("op_sel_hi2", 14, 14), f0("clamp", 15, 15),
				f1("src0", 40, 32), f1("src1", 49, 41), f1("src2", 58, 50), f1("op_sel_hi", 60, 59), f1("neg", 63, 61)}})
	}
	add(sdwaLayout(a))
	return m
}

// FormatNames lists the instruction formats of an architecture in a fixed order.
func FormatNames(a Arch) []string {
	l := []string{"SOP2", "SOPK", "SOP1", "SOPC", "SOPP", "SMEM", "VOP2", "VOP1", "VOPC", "VOP3a", "VOP3b", "DS", "FLAT"}
	if a == GFX90A {
		l = append(l, "SCRATCH", "GLOBAL", "VOP3P")
	}
	return l
}

// Desc is an instruction description at field level.
type Desc struct {
	Arch Arch
	Fmt  string
	Op   int
	F    map[string]uint32 // raw field values; absent = 0
	// Ext: "" plain, "lit" = a 32-bit literal dword F["literal"] follows,
	// "sdwa" = an SDWA dword (fields of layout SDWA) follows and src0 = 249.
	Ext string
}

// Clone copies a description.
func (d Desc) Clone() Desc {
	n := d
	n.F = make(map[string]uint32, len(d.F)+1)
	for k, v := range d.F {
		n.F[k] = v
	}
	return n
}

// With returns a copy with one field changed.
func (d Desc) With(name string, v uint32) Desc {
	n := d.Clone()
	n.F[name] = v
	return n
}

// Key is a canonical one-line form (stable field order).
func (d Desc) Key() string {
	names := make([]string, 0, len(d.F))
	for k := range d.F {
		names = append(names, k)
	}
	sort.Strings(names)
	s := fmt.Sprintf("%s/%s/%d/%s", d.Arch, d.Fmt, d.Op, d.Ext)
	for _, k := range names {
		s += fmt.Sprintf(" %s=%d", k, d.F[k])
	}
	return s
}

var layoutCache = map[Arch]map[string]*Layout{}

func init() {
	layoutCache[GFX803] = Layouts(GFX803)
	layoutCache[GFX90A] = Layouts(GFX90A)
}

// LayoutOf returns the layout of a format.
func LayoutOf(a Arch, name string) *Layout { return layoutCache[a][name] }

func put(dws []uint32, f Field, v uint32) error {
	if v > f.Max() {
		return fmt.Errorf("field %s value %d exceeds %d bits", f.Name, v, f.Bits())
	}
	dws[f.DW] |= v << uint(f.Lo)
	return nil
}

// Encode produces the instruction bytes. Fields not named by the layout (and
// not belonging to the extension dword) are an error, so a misspelt field can
// never silently encode as zero.
func (d Desc) Encode() ([]byte, error) {
	l := LayoutOf(d.Arch, d.Fmt)
	if l == nil {
		return nil, fmt.Errorf("no layout %s/%s", d.Arch, d.Fmt)
	}
	dws := make([]uint32, l.Dwords)
	dws[0] = l.Enc
	if err := put(dws, l.Op, uint32(d.Op)); err != nil {
		return nil, err
	}
	var sd *Layout
	var ext []uint32
	if d.Ext == "sdwa" {
		sd = LayoutOf(d.Arch, "SDWA")
		ext = []uint32{0}
	}
	for name, v := range d.F {
		if f, ok := l.Field(name); ok {
			if err := put(dws, f, v); err != nil {
				return nil, err
			}
			continue
		}
		if sd != nil {
			if f, ok := sd.Field(name); ok {
				if err := put(ext, f, v); err != nil {
					return nil, err
				}
				continue
			}
		}
		if name == "literal" && d.Ext == "lit" {
			continue
		}
		return nil, fmt.Errorf("format %s has no field %q", d.Fmt, name)
	}
	if d.Ext == "lit" {
		ext = []uint32{d.F["literal"]}
	}
	out := make([]byte, 0, 12)
	for _, w := range append(dws, ext...) {
		out = binary.LittleEndian.AppendUint32(out, w)
	}
	return out, nil
}

// MatchFormat is the independent format matcher (most specific ENCODING
// first); VOP3a/VOP3b are not distinguished (both "VOP3a").
func MatchFormat(a Arch, w uint32) string {
	best := ""
	var bestMask uint32
	for name, l := range layoutCache[a] {
		if name == "SDWA" || name == "VOP3b" {
			continue
		}
		if w&l.Mask == l.Enc && (best == "" || l.Mask > bestMask) {
			best, bestMask = name, l.Mask
		}
	}
	return best
}

// ---------------------------------------------------------------------------
// Operand codes

// Opnd is the meaning of an operand.
type Opnd struct {
	Kind string // s v ttmp vcc exec m0 flat_scratch xnack_mask tba tma vccz execz scc lds_direct int float lit aperture
	Idx  int    // register index (for vcc/exec/...: 0 = low half, 1 = high half)
	W    int    // number of 32-bit registers
	Int  int64
	F    float64
	Lit  uint32
}

func (o Opnd) String() string {
	switch o.Kind {
	case "int":
		return fmt.Sprintf("int:%d", o.Int)
	case "float":
		return fmt.Sprintf("float:%g", o.F)
	case "lit":
		return fmt.Sprintf("lit:%#x", o.Lit)
	}
	return fmt.Sprintf("%s:%d:%d", o.Kind, o.Idx, o.W)
}

// Inv2Pi is the value of operand code 248.
const Inv2Pi = 0.15915494309189532

var floatConsts = []float64{0.5, -0.5, 1.0, -1.0, 2.0, -2.0, 4.0, -4.0, Inv2Pi}

// ScalarCode interprets an 8-bit scalar operand code (SSRC/SDST enumeration of
// 13-3) for an operand of w registers. ok=false: the code is reserved, or not
// usable at that width (misaligned tuple, half of a 64-bit special register).
func ScalarCode(a Arch, code uint32, w int) (Opnd, bool) {
	c := int(code)
	pair := func(kind string, base int) (Opnd, bool) {
		switch {
		case w == 1:
			return Opnd{Kind: kind, Idx: c - base, W: 1}, true
		case w == 2 && c == base:
			return Opnd{Kind: kind, Idx: 0, W: 2}, true
		}
		return Opnd{}, false
	}
	tt := func(base, n int) (Opnd, bool) {
		i := c - base
		al := w
		if al > 4 {
			al = 4
		}
		if i%al != 0 || i+w > n {
			return Opnd{}, false
		}
		return Opnd{Kind: "ttmp", Idx: i, W: w}, true
	}
	switch {
	case c <= 101:
		al := w
		if al > 4 {
			al = 4
		}
		if c%al != 0 || c+w > 102 {
			return Opnd{}, false
		}
		return Opnd{Kind: "s", Idx: c, W: w}, true
	case c == 102 || c == 103:
		return pair("flat_scratch", 102)
	case c == 104 || c == 105:
		return pair("xnack_mask", 104)
	case c == 106 || c == 107:
		return pair("vcc", 106)
	case a == GFX803 && (c == 108 || c == 109):
		return pair("tba", 108)
	case a == GFX803 && (c == 110 || c == 111):
		return pair("tma", 110)
	case a == GFX803 && c >= 112 && c <= 123:
		return tt(112, 12)
	case a == GFX90A && c >= 108 && c <= 123:
		return tt(108, 16)
	case c == 124:
		if w == 1 {
			return Opnd{Kind: "m0", W: 1}, true
		}
	case c == 126 || c == 127:
		return pair("exec", 126)
	case c >= 128 && c <= 192:
		return Opnd{Kind: "int", Int: int64(c - 128)}, true
	case c >= 193 && c <= 208:
		return Opnd{Kind: "int", Int: int64(192 - c)}, true
	case a == GFX90A && c >= 235 && c <= 239:
		if w == 1 || w == 2 {
			return Opnd{Kind: "aperture", Idx: c - 235, W: w}, true
		}
	case c >= 240 && c <= 248:
		return Opnd{Kind: "float", F: floatConsts[c-240]}, true
	case c == 251 && w == 1:
		return Opnd{Kind: "vccz", W: 1}, true
	case c == 252 && w == 1:
		return Opnd{Kind: "execz", W: 1}, true
	case c == 253 && w == 1:
		return Opnd{Kind: "scc", W: 1}, true
	case c == 255:
		return Opnd{Kind: "lit"}, true
	}
	return Opnd{}, false
}

// Class of an operand field: how its raw value is interpreted.
//
//	ssrc  8-bit scalar source      sdst  7-bit scalar destination
//	src9  9-bit vector source      vgpr  8-bit VGPR number
//	vsdst 8-bit field holding a scalar destination code (v_readfirstlane_b32,
//	      VOPC-in-VOP3 and v_readlane_b32 destinations)
//	sbase SMEM base: code = 2*value  soff  SMEM SGPR offset held in OFFSET
//	imm   plain unsigned integer
//
// CodeOf interprets a raw field value.
func CodeOf(a Arch, class string, v uint32, w int) (Opnd, bool) {
	switch class {
	case "ssrc":
		return ScalarCode(a, v, w)
	case "sdst", "vsdst":
		if v > 127 {
			return Opnd{}, false
		}
		return ScalarCode(a, v, w)
	case "src9":
		if v >= 256 {
			if int(v-256)+w > 256 {
				return Opnd{}, false
			}
			return Opnd{Kind: "v", Idx: int(v - 256), W: w}, true
		}
		if v == 254 && w == 1 {
			return Opnd{Kind: "lds_direct", W: 1}, true
		}
		return ScalarCode(a, v, w)
	case "vgpr":
		if int(v)+w > 256 {
			return Opnd{}, false
		}
		return Opnd{Kind: "v", Idx: int(v), W: w}, true
	case "sbase":
		return ScalarCode(a, v*2, w)
	case "soff":
		if v > 127 {
			return Opnd{}, false
		}
		return ScalarCode(a, v, 1)
	case "imm":
		return Opnd{Kind: "int", Int: int64(v)}, true
	}
	return Opnd{}, false
}
