package gcn3enc

import (
	"bufio"
	"bytes"
	"compress/gzip"
	"embed"
	"encoding/hex"
	"fmt"
	"io"
	"sort"
	"strconv"
	"strings"
)

//go:embed testdata/*
var testdata embed.FS

// OperandSpec says how one field of an opcode is used.
type OperandSpec struct {
	Field string
	Class string // see CodeOf
	W     int    // registers (1 for 32-bit and narrower)
	Pos   int    // index in the llvm-mc operand list, -1 = not printed as an operand
}

// Row is one opcode of the reference ISA, derived from llvm-mc.
type Row struct {
	Arch      Arch
	Fmt       string
	Op        int
	Mnemonic  string
	ProbeText string
	ProbeHex  string
	Pattern   []string // operand list pattern: "@field" or fixed text (implicit operands)
	Operands  []OperandSpec
	AlwaysLit bool   // the opcode always carries a literal dword (v_madmk_f32, s_setreg_imm32_b32)
	DSOff     string // DS: "two" (offset0/offset1), "one" (16-bit offset), "" none / not interpreted
	Variant   string // "" or "saddr" (GFX9 GLOBAL/SCRATCH with an SGPR base: the VGPR address is 32-bit)
	Opaque    bool   // some operand syntax is not interpreted (hwreg(), sendmsg(), swizzle(), s_waitcnt)
	Base      Desc   // canonical base description (unused fields zero)
}

// Operand finds the spec of a field.
func (r *Row) Operand(field string) *OperandSpec {
	for i := range r.Operands {
		if r.Operands[i].Field == field {
			return &r.Operands[i]
		}
	}
	return nil
}

// Stem strips encoding suffixes of a mnemonic.
func Stem(m string) string {
	for _, s := range []string{"_e32", "_e64", "_sdwa", "_dpp"} {
		m = strings.TrimSuffix(m, s)
	}
	return m
}

func (r *Row) line() string {
	var ops []string
	for _, o := range r.Operands {
		ops = append(ops, fmt.Sprintf("%s:%s:%d:%d", o.Field, o.Class, o.W, o.Pos))
	}
	var base []string
	for k, v := range r.Base.F {
		base = append(base, fmt.Sprintf("%s=%d", k, v))
	}
	sort.Strings(base)
	flags := ""
	if r.AlwaysLit {
		flags += "L"
	}
	if r.Opaque {
		flags += "O"
	}
	return strings.Join([]string{string(r.Arch), r.Fmt, strconv.Itoa(r.Op), r.Mnemonic, r.ProbeHex, r.ProbeText,
		strings.Join(r.Pattern, "|"), strings.Join(ops, ","), flags, r.DSOff + "/" + r.Variant, r.Base.Ext, strings.Join(base, ",")}, "\t")
}

// WriteTable serialises rows.
func WriteTable(w io.Writer, rows []*Row) {
	fmt.Fprintln(w, "# arch\tformat\topcode\tmnemonic\tprobe bytes\tllvm-mc-14 disassembly of the probe\toperand pattern\tfield:class:width:pos\tflags\tds-offset\text\tbase fields")
	for _, r := range rows {
		fmt.Fprintln(w, r.line())
	}
}

func parseRow(line string) (*Row, error) {
	p := strings.Split(line, "\t")
	if len(p) != 12 {
		return nil, fmt.Errorf("bad optable line (%d columns): %q", len(p), line)
	}
	r := &Row{Arch: Arch(p[0]), Fmt: p[1], Mnemonic: p[3], ProbeHex: p[4], ProbeText: p[5]}
	if i := strings.IndexByte(p[9], '/'); i >= 0 {
		r.DSOff, r.Variant = p[9][:i], p[9][i+1:]
	}
	r.Op, _ = strconv.Atoi(p[2])
	if p[6] != "" {
		r.Pattern = strings.Split(p[6], "|")
	}
	if p[7] != "" {
		for _, o := range strings.Split(p[7], ",") {
			q := strings.Split(o, ":")
			if len(q) != 4 {
				return nil, fmt.Errorf("bad operand spec %q", o)
			}
			w, _ := strconv.Atoi(q[2])
			pos, _ := strconv.Atoi(q[3])
			r.Operands = append(r.Operands, OperandSpec{q[0], q[1], w, pos})
		}
	}
	r.AlwaysLit = strings.Contains(p[8], "L")
	r.Opaque = strings.Contains(p[8], "O")
	r.Base = Desc{Arch: r.Arch, Fmt: r.Fmt, Op: r.Op, F: map[string]uint32{}, Ext: p[10]}
	if p[11] != "" {
		for _, kv := range strings.Split(p[11], ",") {
			i := strings.IndexByte(kv, '=')
			v, _ := strconv.ParseUint(kv[i+1:], 10, 32)
			r.Base.F[kv[:i]] = uint32(v)
		}
	}
	return r, nil
}

// LoadTable reads testdata/optable_<arch>.tsv.
func LoadTable(a Arch) ([]*Row, error) {
	data, err := testdata.ReadFile("testdata/optable_" + string(a) + ".tsv")
	if err != nil {
		return nil, err
	}
	var rows []*Row
	sc := bufio.NewScanner(bytes.NewReader(data))
	sc.Buffer(make([]byte, 1<<20), 1<<20)
	for sc.Scan() {
		l := sc.Text()
		if l == "" || l[0] == '#' {
			continue
		}
		r, err := parseRow(l)
		if err != nil {
			return nil, err
		}
		rows = append(rows, r)
	}
	return rows, nil
}

// GroupGolden is the llvm-mc verdict on one enumeration group.
type GroupGolden struct {
	N        int
	Accepted []byte // bitmap, bit i = row i confirmed by llvm-mc
	Hash     string // sha256 over bytes and expectation keys of the confirmed rows
}

// Bit reports whether row i was confirmed.
func (g *GroupGolden) Bit(i int) bool {
	return g != nil && i/8 < len(g.Accepted) && g.Accepted[i/8]&(1<<uint(i%8)) != 0
}

// LoadGroups reads testdata/groups_<arch>.tsv.gz: key "fmt/op/group".
func LoadGroups(a Arch) (map[string]*GroupGolden, error) {
	data, err := testdata.ReadFile("testdata/groups_" + string(a) + ".tsv.gz")
	if err != nil {
		return nil, err
	}
	zr, err := gzip.NewReader(bytes.NewReader(data))
	if err != nil {
		return nil, err
	}
	m := map[string]*GroupGolden{}
	sc := bufio.NewScanner(zr)
	sc.Buffer(make([]byte, 1<<24), 1<<24)
	for sc.Scan() {
		l := sc.Text()
		if l == "" || l[0] == '#' {
			continue
		}
		p := strings.Split(l, "\t")
		if len(p) != 4 {
			return nil, fmt.Errorf("bad groups line %q", l)
		}
		g := &GroupGolden{Hash: p[3]}
		g.N, _ = strconv.Atoi(p[1])
		g.Accepted, err = hex.DecodeString(p[2])
		if err != nil {
			return nil, err
		}
		m[p[0]] = g
	}
	return m, sc.Err()
}

// ---------------------------------------------------------------------------
// Expectation: what a description means, field by field.

// ExpOp is the expected meaning of one operand field.
type ExpOp struct {
	Field string
	Opnd
	Neg, Abs, Sext bool
}

// Expected is the meaning of a description: what a decoder must give back.
type Expected struct {
	Size int
	Ops  []ExpOp           // operands the opcode uses, in Row.Operands order
	Mods map[string]uint32 // raw modifier field values (glc, slc, clamp, omod, sels ...)
}

// Key is a canonical string (hashed into the golden data).
func (e *Expected) Key() string {
	var b strings.Builder
	fmt.Fprintf(&b, "size=%d", e.Size)
	for _, o := range e.Ops {
		fmt.Fprintf(&b, " %s=%s", o.Field, o.Opnd.String())
		if o.Neg {
			b.WriteString("/neg")
		}
		if o.Abs {
			b.WriteString("/abs")
		}
		if o.Sext {
			b.WriteString("/sext")
		}
	}
	names := make([]string, 0, len(e.Mods))
	for k := range e.Mods {
		names = append(names, k)
	}
	sort.Strings(names)
	for _, k := range names {
		fmt.Fprintf(&b, " %s=%d", k, e.Mods[k])
	}
	return b.String()
}

var srcIndex = map[string]uint{"src0": 0, "src1": 1, "vsrc1": 1, "src2": 2}

// modifierFields lists, per format, the non-operand fields that carry meaning.
func modifierFields(fmtName string, a Arch) []string {
	switch fmtName {
	case "SMEM":
		if a == GFX90A {
			return []string{"glc", "imm", "nv", "soe"}
		}
		return []string{"glc", "imm"}
	case "VOP3a":
		return []string{"clamp", "omod"}
	case "VOP3b":
		return []string{"clamp", "omod"}
	case "DS":
		return []string{"gds"}
	case "FLAT":
		if a == GFX90A {
			return []string{"glc", "slc", "lds"}
		}
		return []string{"glc", "slc", "tfe"}
	case "GLOBAL", "SCRATCH":
		return []string{"glc", "slc", "lds"}
	case "VOP3P":
		return []string{"clamp", "op_sel", "op_sel_hi", "op_sel_hi2", "neg", "neg_hi"}
	}
	return nil
}

var sdwaMods = []string{"dst_sel", "dst_unused", "sdwa_clamp", "src0_sel", "src1_sel"}

// Expect computes the meaning of d, an instance of row r. ok=false when d is
// not a well-formed encoding under the reference ISA tables (a reserved
// operand code, a misaligned tuple, a literal code without a literal dword...).
func (r *Row) Expect(d Desc) (*Expected, bool) {
	l := LayoutOf(d.Arch, d.Fmt)
	e := &Expected{Size: 4 * l.Dwords, Mods: map[string]uint32{}}
	if d.Ext != "" {
		e.Size += 4
	}
	usesLit := false
	for _, o := range r.Operands {
		if o.Field == "literal" {
			if d.Ext != "lit" {
				return nil, false
			}
			e.Ops = append(e.Ops, ExpOp{Field: "literal", Opnd: Opnd{Kind: "lit", Lit: d.F["literal"]}})
			usesLit = true
			continue
		}
		v := d.F[o.Field]
		class := o.Class
		if d.Fmt == "SMEM" && o.Field == "offset" {
			if d.F["imm"] == 1 {
				class = "imm"
				if d.Arch == GFX90A {
					class = "simm" // 21-bit signed byte offset on GFX9
				}
			} else {
				class = "soff"
			}
		}
		var x ExpOp
		x.Field = o.Field
		if d.Ext == "sdwa" && o.Field == "src0" {
			// the real src0 is in the SDWA dword
			if v != 249 {
				return nil, false
			}
			sv := d.F["sdwa_src0"]
			var ok bool
			if d.Arch == GFX90A && d.F["s0"] == 1 {
				x.Opnd, ok = ScalarCode(d.Arch, sv, o.W)
				if ok && (x.Kind == "int" || x.Kind == "float" || x.Kind == "lit") && sv < 128 {
					ok = false
				}
			} else {
				x.Opnd, ok = CodeOf(d.Arch, "vgpr", sv, o.W)
			}
			if !ok {
				return nil, false
			}
			x.Neg, x.Abs, x.Sext = d.F["src0_neg"] == 1, d.F["src0_abs"] == 1, d.F["src0_sext"] == 1
			e.Ops = append(e.Ops, x)
			continue
		}
		if class == "saddr" {
			if (v == 0x7f) == strings.HasPrefix(r.Variant, "saddr") {
				return nil, false
			}
			if v == 0x7f {
				x.Opnd = Opnd{Kind: "off"}
			} else {
				var ok bool
				x.Opnd, ok = ScalarCode(d.Arch, v, 2)
				if !ok || x.Kind == "int" || x.Kind == "float" || x.Kind == "lit" {
					return nil, false
				}
			}
			e.Ops = append(e.Ops, x)
			continue
		}
		if d.Fmt == "FLAT" && d.Arch == GFX90A && o.Field == "offset" && v > 4095 {
			return nil, false // FLAT segment: 12-bit unsigned offset (llvm-mc's assembler rejects more)
		}
		if class == "simm" { // signed immediate of the field's width
			f, _ := l.Field(o.Field)
			sv := int64(v)
			if v&(1<<uint(f.Bits()-1)) != 0 {
				sv -= int64(1) << uint(f.Bits())
			}
			x.Opnd = Opnd{Kind: "int", Int: sv}
			e.Ops = append(e.Ops, x)
			continue
		}
		var ok bool
		x.Opnd, ok = CodeOf(d.Arch, class, v, o.W)
		if !ok {
			return nil, false
		}
		if x.Kind == "lit" {
			if d.Ext != "lit" {
				return nil, false
			}
			x.Lit = d.F["literal"]
			usesLit = true
		}
		if d.Ext == "sdwa" && o.Field == "vsrc1" {
			if d.Arch == GFX90A && d.F["s1"] == 1 {
				x.Opnd, ok = ScalarCode(d.Arch, v, o.W)
				if !ok {
					return nil, false
				}
			}
			x.Neg, x.Abs, x.Sext = d.F["src1_neg"] == 1, d.F["src1_abs"] == 1, d.F["src1_sext"] == 1
		}
		if d.Fmt == "VOP3a" || d.Fmt == "VOP3b" {
			if i, isSrc := srcIndex[o.Field]; isSrc {
				x.Neg = d.F["neg"]>>i&1 == 1
				if d.Fmt == "VOP3a" {
					x.Abs = d.F["abs"]>>i&1 == 1
				}
			}
		}
		e.Ops = append(e.Ops, x)
	}
	if d.Ext == "lit" && !usesLit {
		return nil, false
	}
	// neg/abs bits of sources the opcode does not have are not well-formed
	if d.Fmt == "VOP3a" || d.Fmt == "VOP3b" {
		for name, i := range srcIndex {
			if name == "vsrc1" {
				continue
			}
			if r.Operand(name) == nil && (d.F["neg"]>>i&1 == 1 || d.F["abs"]>>i&1 == 1) {
				return nil, false
			}
		}
	}
	for _, m := range modifierFields(d.Fmt, d.Arch) {
		e.Mods[m] = d.F[m]
	}
	if strings.Contains(r.Mnemonic, "atomic") && (d.Fmt == "FLAT" || d.Fmt == "GLOBAL" || d.Fmt == "SCRATCH") {
		// GLC selects the returning form, which has a destination operand
		if (d.F["glc"] == 1) != strings.HasSuffix(r.Variant, "rtn") {
			return nil, false
		}
	}
	if d.Fmt == "DS" {
		switch r.DSOff {
		case "two":
			e.Mods["offset0"], e.Mods["offset1"] = d.F["offset0"], d.F["offset1"]
		case "one":
			e.Mods["offset"] = d.F["offset0"] | d.F["offset1"]<<8
		}
	}
	if d.Ext == "sdwa" {
		for _, m := range sdwaMods {
			e.Mods[m] = d.F[m]
		}
		if d.Arch == GFX90A {
			e.Mods["sdwa_omod"] = d.F["sdwa_omod"]
		}
		if d.F["dst_sel"] > 6 || d.F["src0_sel"] > 6 || d.F["src1_sel"] > 6 || d.F["dst_unused"] > 2 {
			return nil, false
		}
	}
	return e, true
}
