package gcn3enc

import (
	"fmt"
	"math"
	"regexp"
	"strconv"
	"strings"
)

// AsmLine is a parsed line of llvm-mc output.
type AsmLine struct {
	Mnemonic string
	Ops      []string          // operand texts in order
	Mods     map[string]string // trailing modifiers: "glc" -> "1", "offset" -> "16", "dst_sel" -> "BYTE_0"
	Bytes    []byte            // llvm-mc's own (re-)encoding
	Text     string
}

var encRe = regexp.MustCompile(`;\s*encoding:\s*\[([^\]]*)\]`)

// ParseAsmLine parses "\tmnemonic a, b, c mod:1 glc ; encoding: [0x..,...]".
func ParseAsmLine(line string) (*AsmLine, error) {
	m := encRe.FindStringSubmatchIndex(line)
	if m == nil {
		return nil, fmt.Errorf("no encoding in %q", line)
	}
	al := &AsmLine{Mods: map[string]string{}}
	for _, b := range strings.Split(line[m[2]:m[3]], ",") {
		v, err := strconv.ParseUint(strings.TrimSpace(b), 0, 8)
		if err != nil {
			return nil, fmt.Errorf("bad byte in %q", line)
		}
		al.Bytes = append(al.Bytes, byte(v))
	}
	text := strings.TrimSpace(line[:m[0]])
	al.Text = text
	sp := strings.IndexAny(text, " \t")
	if sp < 0 {
		al.Mnemonic = text
		return al, nil
	}
	al.Mnemonic = text[:sp]
	rest := strings.TrimSpace(text[sp:])
	// split on commas at depth 0
	var parts []string
	depth := 0
	start := 0
	for i, c := range rest {
		switch c {
		case '(', '[':
			depth++
		case ')', ']':
			depth--
		case ',':
			if depth == 0 {
				parts = append(parts, strings.TrimSpace(rest[start:i]))
				start = i + 1
			}
		}
	}
	parts = append(parts, strings.TrimSpace(rest[start:]))
	// the last part may carry modifiers separated by blanks; also an
	// instruction may have only modifiers (ds_nop, s_waitcnt vmcnt(0) ...)
	last := parts[len(parts)-1]
	toks := splitBlank(last)
	parts = parts[:len(parts)-1]
	first := true
	for _, t := range toks {
		if first && !isModifier(t) {
			parts = append(parts, t)
			first = false
			continue
		}
		first = false
		if i := strings.IndexByte(t, ':'); i > 0 && !strings.Contains(t, "(") {
			al.Mods[t[:i]] = t[i+1:]
		} else {
			al.Mods[t] = "1"
		}
	}
	al.Ops = parts
	return al, nil
}

func splitBlank(s string) []string {
	var out []string
	depth := 0
	start := -1
	for i, c := range s {
		switch {
		case c == '(' || c == '[':
			depth++
		case c == ')' || c == ']':
			depth--
		}
		if (c == ' ' || c == '\t') && depth == 0 {
			if start >= 0 {
				out = append(out, s[start:i])
				start = -1
			}
			continue
		}
		if start < 0 {
			start = i
		}
	}
	if start >= 0 {
		out = append(out, s[start:])
	}
	return out
}

var modWords = map[string]bool{"glc": true, "slc": true, "tfe": true, "gds": true, "clamp": true, "nv": true, "lds": true, "off": false,
	"scc": false, "sc0": true, "sc1": true, "nt": true}

func isModifier(t string) bool {
	if modWords[t] {
		return true
	}
	if i := strings.IndexByte(t, ':'); i > 0 && !strings.ContainsAny(t[:i], "[(|") {
		return true
	}
	return false
}

// ParsedOpnd is an operand text interpreted.
type ParsedOpnd struct {
	Opnd
	Neg, Abs, Sext bool
	Opaque         bool // syntax not interpreted (hwreg(...), sendmsg(...), labels)
}

var (
	regRe   = regexp.MustCompile(`^(s|v|ttmp|a)(\d+)$`)
	tupleRe = regexp.MustCompile(`^(s|v|ttmp|a)\[(\d+):(\d+)\]$`)
)

var specialRegs = map[string]Opnd{
	"vcc": {Kind: "vcc", W: 2}, "vcc_lo": {Kind: "vcc", W: 1}, "vcc_hi": {Kind: "vcc", Idx: 1, W: 1},
	"exec": {Kind: "exec", W: 2}, "exec_lo": {Kind: "exec", W: 1}, "exec_hi": {Kind: "exec", Idx: 1, W: 1},
	"flat_scratch": {Kind: "flat_scratch", W: 2}, "flat_scratch_lo": {Kind: "flat_scratch", W: 1}, "flat_scratch_hi": {Kind: "flat_scratch", Idx: 1, W: 1},
	"xnack_mask": {Kind: "xnack_mask", W: 2}, "xnack_mask_lo": {Kind: "xnack_mask", W: 1}, "xnack_mask_hi": {Kind: "xnack_mask", Idx: 1, W: 1},
	"tba": {Kind: "tba", W: 2}, "tba_lo": {Kind: "tba", W: 1}, "tba_hi": {Kind: "tba", Idx: 1, W: 1},
	"tma": {Kind: "tma", W: 2}, "tma_lo": {Kind: "tma", W: 1}, "tma_hi": {Kind: "tma", Idx: 1, W: 1},
	"m0": {Kind: "m0", W: 1}, "src_vccz": {Kind: "vccz", W: 1}, "src_execz": {Kind: "execz", W: 1}, "src_scc": {Kind: "scc", W: 1},
	"src_lds_direct":  {Kind: "lds_direct", W: 1},
	"src_shared_base": {Kind: "aperture", Idx: 0}, "src_shared_limit": {Kind: "aperture", Idx: 1},
	"src_private_base": {Kind: "aperture", Idx: 2}, "src_private_limit": {Kind: "aperture", Idx: 3},
	"src_pops_exiting_wave_id": {Kind: "aperture", Idx: 4},
}

// ParseOperand interprets one operand text of llvm-mc output.
func ParseOperand(t string) ParsedOpnd {
	var p ParsedOpnd
	if strings.HasPrefix(t, "sext(") && strings.HasSuffix(t, ")") {
		p = ParseOperand(t[5 : len(t)-1])
		p.Sext = true
		return p
	}
	if strings.HasPrefix(t, "-|") || strings.HasPrefix(t, "-v") || strings.HasPrefix(t, "-s") || strings.HasPrefix(t, "-ttmp") ||
		strings.HasPrefix(t, "-src_") || strings.HasPrefix(t, "-m0") || strings.HasPrefix(t, "-exec") || strings.HasPrefix(t, "-flat") ||
		strings.HasPrefix(t, "-xnack") || strings.HasPrefix(t, "-tba") || strings.HasPrefix(t, "-tma") {
		p = ParseOperand(t[1:])
		p.Neg = true
		return p
	}
	if strings.HasPrefix(t, "neg(") && strings.HasSuffix(t, ")") {
		p = ParseOperand(t[4 : len(t)-1])
		p.Neg = true
		return p
	}
	if strings.HasPrefix(t, "abs(") && strings.HasSuffix(t, ")") {
		p = ParseOperand(t[4 : len(t)-1])
		p.Abs = true
		return p
	}
	if len(t) >= 2 && t[0] == '|' && t[len(t)-1] == '|' {
		p = ParseOperand(t[1 : len(t)-1])
		p.Abs = true
		return p
	}
	if m := regRe.FindStringSubmatch(t); m != nil {
		n, _ := strconv.Atoi(m[2])
		p.Opnd = Opnd{Kind: m[1], Idx: n, W: 1}
		return p
	}
	if m := tupleRe.FindStringSubmatch(t); m != nil {
		lo, _ := strconv.Atoi(m[2])
		hi, _ := strconv.Atoi(m[3])
		p.Opnd = Opnd{Kind: m[1], Idx: lo, W: hi - lo + 1}
		return p
	}
	if o, ok := specialRegs[t]; ok {
		p.Opnd = o
		return p
	}
	if strings.HasPrefix(t, "-0x") {
		v, err := strconv.ParseUint(t[3:], 16, 64)
		if err == nil {
			p.Opnd = Opnd{Kind: "int", Int: -int64(v)}
			return p
		}
	}
	if strings.HasPrefix(t, "0x") {
		v, err := strconv.ParseUint(t[2:], 16, 64)
		if err == nil {
			p.Opnd = Opnd{Kind: "lit", Lit: uint32(v)}
			return p
		}
	}
	if v, err := strconv.ParseInt(t, 10, 64); err == nil {
		p.Opnd = Opnd{Kind: "int", Int: v}
		return p
	}
	if v, err := strconv.ParseFloat(t, 64); err == nil {
		p.Opnd = Opnd{Kind: "float", F: v}
		return p
	}
	p.Opaque = true
	return p
}

// SameOpnd compares an expected operand (from CodeOf) with one parsed from
// llvm-mc text. Literals print as hex and may be confused with inline integers
// only when they are small; the caller uses literal values that are not inline
// constants.
func SameOpnd(exp Opnd, got Opnd) bool {
	switch exp.Kind {
	case "int":
		return got.Kind == "int" && got.Int == exp.Int
	case "float":
		if got.Kind != "float" {
			return false
		}
		return math.Abs(got.F-exp.F) <= 1e-4*math.Abs(exp.F)
	case "lit":
		return got.Kind == "lit" && got.Lit == exp.Lit
	case "aperture":
		return got.Kind == "aperture" && got.Idx == exp.Idx
	}
	if got.Kind != exp.Kind || got.Idx != exp.Idx {
		return false
	}
	return got.W == exp.W
}
