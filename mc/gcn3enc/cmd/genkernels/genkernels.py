#!/usr/bin/env python3
"""Development-time generator of checks/c04/testdata/kernels_gfx803.tsv:
instruction boundaries of every kernel of every shipped gfx803 .hsaco according
to llvm-objdump-14 (the check never runs llvm). Usage: genkernels.py REPO OUT"""
import subprocess, sys, os, re, struct

repo, out = sys.argv[1], sys.argv[2]
files = []
for root, _, names in os.walk(repo):
    for n in names:
        if n.endswith('.hsaco'):
            files.append(os.path.relpath(os.path.join(root, n), repo))
files.sort()
lines = ["# file\taddr:size ... (llvm-objdump-14 -d --mcpu=gfx803, per kernel from symbol+256 to symbol end)"]
for rel in files:
    path = os.path.join(repo, rel)
    d = open(path, 'rb').read()
    if struct.unpack_from('<I', d, 48)[0] & 0xff != 0x2a:
        continue
    syms = subprocess.run(['llvm-readelf-14', '-s', '--wide', path], capture_output=True, text=True).stdout
    secs = subprocess.run(['llvm-readelf-14', '-S', '--wide', path], capture_output=True, text=True).stdout
    textidx = None
    for l in secs.splitlines():
        m = re.match(r'\s*\[\s*(\d+)\]\s+\.text\s', l)
        if m:
            textidx = m.group(1)
    items = []
    for l in syms.splitlines():
        p = l.split()
        if len(p) >= 8 and p[0].endswith(':') and p[6] == textidx and int(p[2]) > 0:
            addr, size = int(p[1], 16), int(p[2])
            r = subprocess.run(['llvm-objdump-14', '-d', '--mcpu=gfx803', '--start-address=%#x' % (addr + 256),
                                '--stop-address=%#x' % (addr + size), path], capture_output=True, text=True).stdout
            for ol in r.splitlines():
                m = re.search(r'//\s*([0-9A-F]{12}):((?: [0-9A-F]{8})+)\s*$', ol)
                if m:
                    items.append('%x:%d' % (int(m.group(1), 16), 4 * len(m.group(2).split())))
    lines.append(rel + '\t' + ' '.join(items))
open(out, 'w').write('\n'.join(lines) + '\n')
print(len(lines) - 1, 'files')
