// gengolden derives the reference opcode table and the golden enumeration data
// of package gcn3enc from llvm-mc-14 (development-time tool; the check itself
// never runs llvm-mc).
//
//	go run ./gcn3enc/cmd/gengolden -out gcn3enc/testdata [-arch gfx803,gfx90a] [-v]
package main

import (
	"bufio"
	"bytes"
	"compress/gzip"
	"encoding/hex"
	"flag"
	"fmt"
	"os"
	"os/exec"
	"path/filepath"
	"runtime"
	"sort"
	"strings"
	"sync"

	enc "verif/mc/gcn3enc"
)

var marker = []byte{0x77, 0x77, 0x80, 0xbf}  // s_nop 0x7777
var marker2 = []byte{0x78, 0x77, 0x80, 0xbf} // s_nop 0x7778

func fmtBytes(b []byte) string {
	var sb strings.Builder
	for i, x := range b {
		if i > 0 {
			sb.WriteByte(',')
		}
		fmt.Fprintf(&sb, "0x%02x", x)
	}
	return sb.String()
}

// disasmChunk runs llvm-mc over words, returning the parsed lines per word.
func disasmChunk(arch enc.Arch, words [][]byte) [][]*enc.AsmLine {
	res, ok := disasmTry(arch, words)
	if ok {
		return res
	}
	// llvm-mc crashed (it does on a few malformed words): bisect
	if len(words) == 1 {
		crashed++
		return make([][]*enc.AsmLine, 1)
	}
	parts := 8
	if len(words) < parts {
		parts = len(words)
	}
	var out [][]*enc.AsmLine
	for p := 0; p < parts; p++ {
		out = append(out, disasmChunk(arch, words[p*len(words)/parts:(p+1)*len(words)/parts])...)
	}
	return out
}

var crashed int

func disasmTry(arch enc.Arch, words [][]byte) ([][]*enc.AsmLine, bool) {
	var in bytes.Buffer
	for _, w := range words {
		in.WriteString(fmtBytes(w))
		in.WriteByte('\n')
		// two markers: the first may be swallowed as a literal dword by a
		// word that needs one more dword than was supplied
		in.WriteString(fmtBytes(marker))
		in.WriteByte('\n')
		in.WriteString(fmtBytes(marker2))
		in.WriteByte('\n')
	}
	cmd := exec.Command("llvm-mc-14", "-arch=amdgcn", "-mcpu="+string(arch), "-disassemble", "-show-encoding")
	cmd.Stdin = &in
	var out bytes.Buffer
	cmd.Stdout = &out
	if err := cmd.Run(); err != nil {
		if _, isExit := err.(*exec.ExitError); isExit {
			return nil, false
		}
		fmt.Fprintln(os.Stderr, "llvm-mc:", err)
		os.Exit(2)
	}
	res := make([][]*enc.AsmLine, len(words))
	i := 0
	sc := bufio.NewScanner(&out)
	sc.Buffer(make([]byte, 1<<20), 1<<20)
	for sc.Scan() {
		l := sc.Text()
		if !strings.Contains(l, "encoding:") {
			continue
		}
		al, err := enc.ParseAsmLine(l)
		if err != nil {
			fmt.Fprintln(os.Stderr, err)
			os.Exit(2)
		}
		if bytes.Equal(al.Bytes, marker) && al.Mnemonic == "s_nop" {
			continue
		}
		if bytes.Equal(al.Bytes, marker2) && al.Mnemonic == "s_nop" {
			i++
			continue
		}
		if i >= len(words) {
			fmt.Fprintln(os.Stderr, "llvm-mc output past the last marker")
			os.Exit(2)
		}
		res[i] = append(res[i], al)
	}
	if i != len(words) {
		fmt.Fprintf(os.Stderr, "marker count %d != words %d\n", i, len(words))
		os.Exit(2)
	}
	return res, true
}

func disasm(arch enc.Arch, words [][]byte) [][]*enc.AsmLine {
	const chunk = 4000
	n := (len(words) + chunk - 1) / chunk
	res := make([][]*enc.AsmLine, len(words))
	var wg sync.WaitGroup
	sem := make(chan struct{}, runtime.NumCPU())
	for c := 0; c < n; c++ {
		lo, hi := c*chunk, (c+1)*chunk
		if hi > len(words) {
			hi = len(words)
		}
		wg.Add(1)
		sem <- struct{}{}
		go func() {
			defer wg.Done()
			defer func() { <-sem }()
			copy(res[lo:hi], disasmChunk(arch, words[lo:hi]))
		}()
	}
	wg.Wait()
	return res
}

// ---------------------------------------------------------------------------
// probes

type probe struct {
	d enc.Desc
}

func mk(a enc.Arch, f string, op int, ext string, kv ...any) enc.Desc {
	d := enc.Desc{Arch: a, Fmt: f, Op: op, F: map[string]uint32{}, Ext: ext}
	for i := 0; i < len(kv); i += 2 {
		d.F[kv[i].(string)] = uint32(kv[i+1].(int))
	}
	return d
}

const probeLit = 0x12345678

// optField is a field that an opcode may or may not use; alternatives are
// tried from "all present" down to "none present" and the first candidate that
// llvm-mc decodes (it rejects non-zero unused fields in most formats) and whose
// present fields all show up in the text defines the opcode's operand list.
type optField struct {
	name string
	vals []int // alternatives, most preferred first; 0 = absent is appended
}

func subsets(a enc.Arch, f string, op int, ext string, fixed []any, opts []optField) []enc.Desc {
	type cand struct {
		d       enc.Desc
		present int
		rank    int
	}
	var cs []cand
	var rec func(i int, d enc.Desc, present, rank int)
	rec = func(i int, d enc.Desc, present, rank int) {
		if i == len(opts) {
			cs = append(cs, cand{d.Clone(), present, rank})
			return
		}
		for k, v := range opts[i].vals {
			n := d.Clone()
			n.F[opts[i].name] = uint32(v)
			rec(i+1, n, present+1, rank*4+k)
		}
		rec(i+1, d, present, rank*4+3)
	}
	rec(0, mk(a, f, op, ext, fixed...), 0, 0)
	sort.SliceStable(cs, func(x, y int) bool {
		if cs[x].present != cs[y].present {
			return cs[x].present > cs[y].present
		}
		return cs[x].rank < cs[y].rank
	})
	var out []enc.Desc
	for _, c := range cs {
		out = append(out, c.d)
	}
	return out
}

func probes(a enc.Arch, f string, op int) []enc.Desc {
	var out []enc.Desc
	withLit := func(ds []enc.Desc) []enc.Desc {
		var l []enc.Desc
		for _, d := range ds {
			n := d.Clone()
			n.Ext = "lit"
			n.F["literal"] = probeLit
			l = append(l, n)
		}
		return l
	}
	o := func(name string, vals ...int) optField { return optField{name, vals} }
	switch f {
	case "SOP2":
		out = subsets(a, f, op, "", nil, []optField{o("sdst", 16), o("ssrc0", 32), o("ssrc1", 48)})
	case "SOPK":
		out = subsets(a, f, op, "", nil, []optField{o("sdst", 16), o("simm16", 0x1234)})
		out = append(out, withLit(out)...)
	case "SOP1":
		out = subsets(a, f, op, "", nil, []optField{o("sdst", 16), o("ssrc0", 32)})
	case "SOPC":
		out = subsets(a, f, op, "", nil, []optField{o("ssrc0", 32), o("ssrc1", 48)})
	case "SOPP":
		out = subsets(a, f, op, "", nil, []optField{o("simm16", 0x1234)})
	case "SMEM":
		out = subsets(a, f, op, "", nil, []optField{o("sbase", 8), o("sdata", 48), o("offset", 0x1234)})
		for i := range out {
			if out[i].F["offset"] != 0 {
				out[i].F["imm"] = 1
			}
		}
	case "VOP2":
		out = subsets(a, f, op, "", nil, []optField{o("vdst", 16), o("src0", 256+32), o("vsrc1", 48)})
		out = append(out, withLit(out)...)
	case "VOP1":
		out = subsets(a, f, op, "", nil, []optField{o("vdst", 16), o("src0", 256+32)})
	case "VOPC":
		out = subsets(a, f, op, "", nil, []optField{o("src0", 256+32), o("vsrc1", 48)})
	case "VOP3a", "VOP3P":
		out = subsets(a, f, op, "", nil, []optField{o("vdst", 16), o("src0", 256+32, 32), o("src1", 256+48, 48), o("src2", 256+64, 64)})
	case "VOP3b":
		out = subsets(a, f, op, "", []any{"sdst", 80}, []optField{o("vdst", 16), o("src0", 256+32, 32), o("src1", 256+48, 48), o("src2", 256+64, 64)})
	case "DS":
		out = subsets(a, f, op, "", nil, []optField{o("addr", 16), o("data0", 32), o("data1", 48), o("vdst", 64), o("offset0", 0x12), o("offset1", 0x34)})
		// GWS/ordered-count opcodes exist only with GDS=1
		out = append(out, subsets(a, f, op, "", []any{"gds", 1}, []optField{o("addr", 16), o("data0", 32), o("data1", 48), o("vdst", 64), o("offset0", 0x12), o("offset1", 0x34)})...)
	case "FLAT":
		for glc := 0; glc < 2; glc++ {
			if a == enc.GFX803 {
				out = append(out, subsets(a, f, op, "", []any{"glc", glc}, []optField{o("addr", 16), o("data", 32), o("vdst", 48)})...)
			} else {
				out = append(out, subsets(a, f, op, "", []any{"glc", glc}, []optField{o("addr", 16), o("data", 32), o("vdst", 48), o("offset", 0x12)})...)
			}
		}
	case "GLOBAL", "SCRATCH":
		for glc := 0; glc < 2; glc++ {
			for _, sa := range []int{0x7f, 64} {
				out = append(out, subsets(a, f, op, "", []any{"glc", glc, "saddr", sa}, []optField{o("addr", 16), o("data", 32), o("vdst", 48), o("offset", 0x12)})...)
			}
		}
	}
	return out
}

// classOf gives the interpretation class of a field of a format.
func classOf(f, field string, kind string) string {
	switch field {
	case "ssrc0", "ssrc1":
		return "ssrc"
	case "sdst", "sdata":
		return "sdst"
	case "simm16":
		return "imm"
	case "sbase":
		return "sbase"
	case "src0", "src1", "src2":
		return "src9"
	case "vsrc1", "addr", "data", "data0", "data1":
		return "vgpr"
	case "vdst":
		if kind == "s" || kind == "vcc" || kind == "exec" || kind == "ttmp" {
			return "vsdst"
		}
		return "vgpr"
	case "saddr":
		return "saddr"
	case "offset":
		if f == "SMEM" {
			return "imm"
		}
		if f == "FLAT" {
			return "imm"
		}
		return "simm"
	}
	return "imm"
}

// regIndexOf is the register index a field value denotes in a probe.
func regIndexOf(field string, v uint32) (kind string, idx int) {
	switch field {
	case "ssrc0", "ssrc1", "sdst", "sdata":
		return "s", int(v)
	case "sbase":
		return "s", int(v) * 2
	case "src0", "src1", "src2":
		if v >= 256 {
			return "v", int(v) - 256
		}
		return "s", int(v)
	case "vsrc1", "addr", "data", "data0", "data1":
		return "v", int(v)
	case "vdst":
		return "*", int(v)
	case "saddr":
		return "s", int(v)
	}
	return "", -1
}

func buildRow(a enc.Arch, f string, op int, pd enc.Desc, al *enc.AsmLine, variant string) (*enc.Row, string) {
	b, _ := pd.Encode()
	r := &enc.Row{Arch: a, Fmt: f, Op: op, Mnemonic: al.Mnemonic, ProbeText: al.Text, ProbeHex: hex.EncodeToString(b), Variant: variant}
	l := enc.LayoutOf(a, f)
	used := map[string]bool{}
	for i, t := range al.Ops {
		p := enc.ParseOperand(t)
		matched := ""
		immField := false
		if p.Opaque {
			if t == "off" && pd.F["saddr"] == 0x7f && !used["saddr"] && f != "FLAT" {
				// GLOBAL/SCRATCH: the SADDR (or the VGPR address of SCRATCH) is "off"
				matched = "saddr"
			} else {
				r.Opaque = true
				r.Pattern = append(r.Pattern, "?")
				continue
			}
		}
		if matched == "" {
			switch p.Kind {
			case "s", "v":
				for _, fl := range l.Fields {
					k, idx := regIndexOf(fl.Name, pd.F[fl.Name])
					if idx == p.Idx && idx != 0 && (k == p.Kind || k == "*") && !used[fl.Name] {
						matched = fl.Name
						break
					}
				}
			case "lit":
				if pd.Ext == "lit" && p.Lit == probeLit {
					matched = "literal"
				} else {
					for _, name := range []string{"simm16", "offset"} {
						if fl, ok := l.Field(name); ok && pd.F[fl.Name] == p.Lit && !used[name] && pd.F[fl.Name] != 0 {
							matched = name
						}
					}
				}
			case "int":
				for _, name := range []string{"simm16", "offset"} {
					if fl, ok := l.Field(name); ok && int64(pd.F[fl.Name]) == p.Int && !used[name] && pd.F[fl.Name] != 0 {
						matched = name
					}
				}
				if matched == "" {
					for _, fl := range l.Fields {
						if int64(pd.F[fl.Name]) == p.Int && p.Int != 0 && !used[fl.Name] {
							matched = fl.Name
							immField = true
							break
						}
					}
				}
			}
		}
		if matched == "" {
			r.Pattern = append(r.Pattern, t) // implicit / fixed operand
			continue
		}
		used[matched] = true
		w := p.W
		if w == 0 {
			w = 1
		}
		if matched == "saddr" {
			w = 2
			if f == "SCRATCH" {
				w = 1
			}
		}
		r.Pattern = append(r.Pattern, "@"+matched)
		cls := classOf(f, matched, p.Kind)
		if immField {
			cls = "imm"
		}
		r.Operands = append(r.Operands, enc.OperandSpec{Field: matched, Class: cls, W: w, Pos: i})
	}
	// modifiers that are fields
	if f == "DS" {
		_, o0 := al.Mods["offset0"]
		_, o1 := al.Mods["offset1"]
		if o0 && o1 {
			r.DSOff = "two"
		} else if v, ok := al.Mods["offset"]; ok {
			if v == fmt.Sprint(pd.F["offset0"]|pd.F["offset1"]<<8) {
				r.DSOff = "one"
			} else {
				r.Opaque = true
			}
		}
	}
	if f == "FLAT" || f == "GLOBAL" || f == "SCRATCH" {
		if _, ok := al.Mods["offset"]; ok {
			r.Operands = append(r.Operands, enc.OperandSpec{Field: "offset", Class: classOf(f, "offset", ""), W: 1, Pos: -1})
			used["offset"] = true
		}
	}
	if (f == "SOPP" || f == "SOPK") && !used["simm16"] && r.Opaque {
		r.Operands = append(r.Operands, enc.OperandSpec{Field: "simm16", Class: "imm", W: 1, Pos: -1})
		used["simm16"] = true
	}
	if pd.Ext == "lit" {
		if !used["literal"] {
			if r.Opaque {
				r.Operands = append(r.Operands, enc.OperandSpec{Field: "literal", Class: "lit", W: 1, Pos: -1})
			} else {
				return nil, "literal probe but no literal operand: " + al.Text
			}
		}
		r.AlwaysLit = true
	}
	// base: the probe with unused operand fields zeroed
	r.Base = pd.Clone()
	for k := range r.Base.F {
		if k == "literal" || k == "imm" || k == "glc" || k == "gds" {
			continue
		}
		if !used[k] {
			if f == "DS" && (k == "offset0" || k == "offset1") && r.DSOff != "" {
				continue
			}
			delete(r.Base.F, k)
		}
	}
	if f == "SMEM" && !used["offset"] {
		delete(r.Base.F, "imm")
	}
	return r, ""
}

func main() {
	out := flag.String("out", "gcn3enc/testdata", "output directory")
	archs := flag.String("arch", "gfx803,gfx90a", "architectures")
	verbose := flag.Bool("v", false, "print every rejection class")
	only := flag.String("only", "", "restrict to one format (debugging)")
	flag.Parse()
	for _, as := range strings.Split(*archs, ",") {
		a := enc.Arch(as)
		rows := deriveTable(a, *only)
		f, _ := os.Create(filepath.Join(*out, "optable_"+as+".tsv"))
		enc.WriteTable(f, rows)
		f.Close()
		fmt.Printf("%s: %d table rows\n", as, len(rows))
		validateGroups(a, rows, filepath.Join(*out, "groups_"+as+".tsv.gz"), *verbose)
	}
}

func deriveTable(a enc.Arch, only string) []*enc.Row {
	type cand struct {
		f  string
		op int
		d  enc.Desc
	}
	var cands []cand
	var words [][]byte
	for _, f := range enc.FormatNames(a) {
		if only != "" && f != only {
			continue
		}
		l := enc.LayoutOf(a, f)
		for op := 0; op <= int(l.Op.Max()); op++ {
			if f == "VOP3P" && op >= 64 {
				continue // MFMA (VOP3P-MAI) has a different layout; not covered
			}
			for _, d := range probes(a, f, op) {
				b, err := d.Encode()
				if err == nil {
					mf := enc.MatchFormat(a, uint32(b[0])|uint32(b[1])<<8|uint32(b[2])<<16|uint32(b[3])<<24)
					if mf != f && !(f == "VOP3b" && mf == "VOP3a") {
						continue // the opcode value aliases a more specific format
					}
				}
				if err != nil {
					fmt.Fprintln(os.Stderr, "probe:", err)
					os.Exit(2)
				}
				cands = append(cands, cand{f, op, d})
				words = append(words, b)
			}
		}
	}
	res := disasm(a, words)
	var rows []*enc.Row
	seen := map[string]bool{}
	skipped := 0
	for i, c := range cands {
		variant := ""
		if (c.f == "GLOBAL" || c.f == "SCRATCH") && c.d.F["saddr"] != 0x7f {
			variant = "saddr"
		}
		if c.d.F["glc"] == 1 {
			if len(res[i]) != 1 || !strings.Contains(res[i][0].Mnemonic, "atomic") {
				continue // glc probes only define the returning form of atomics
			}
			variant += "rtn"
		}
		key := fmt.Sprintf("%s/%d/%s", c.f, c.op, variant)
		if seen[key] {
			continue
		}
		if len(res[i]) != 1 || !bytes.Equal(res[i][0].Bytes[:4], words[i][:4]) || len(res[i][0].Bytes) != len(words[i]) {
			continue
		}
		al := res[i][0]
		// VOP3a vs VOP3b: llvm-mc decides; a VOP3b probe (sdst set) that
		// decodes without the scalar destination is a VOP3a opcode.
		r, why := buildRow(a, c.f, c.op, c.d, al, variant)
		if r == nil {
			fmt.Printf("  skip %s op %d: %s\n", c.f, c.op, why)
			skipped++
			continue
		}
		if c.f == "VOP3b" && r.Operand("sdst") == nil {
			continue
		}
		if !allPresentUsed(c.d, r) {
			continue
		}
		if c.f == "VOP3a" {
			// is it really a VOP3b opcode? (abs field overlaps sdst): decided by the VOP3b pass
		}
		seen[key] = true
		rows = append(rows, r)
	}
	// drop VOP3a rows of opcodes that are VOP3b
	isB := map[int]bool{}
	for _, r := range rows {
		if r.Fmt == "VOP3b" {
			isB[r.Op] = true
		}
	}
	var keep []*enc.Row
	for _, r := range rows {
		if r.Fmt == "VOP3a" && isB[r.Op] {
			continue
		}
		keep = append(keep, r)
	}
	sort.SliceStable(keep, func(i, j int) bool {
		if keep[i].Fmt != keep[j].Fmt {
			return fmtOrder(a, keep[i].Fmt) < fmtOrder(a, keep[j].Fmt)
		}
		return keep[i].Op < keep[j].Op
	})
	return keep
}

func fmtOrder(a enc.Arch, f string) int {
	for i, n := range enc.FormatNames(a) {
		if n == f {
			return i
		}
	}
	return 99
}

func validateGroups(a enc.Arch, rows []*enc.Row, path string, verbose bool) {
	type item struct {
		row *enc.Row
		ri  int
		gi  int
		di  int
	}
	f, _ := os.Create(path)
	zw := gzip.NewWriter(f)
	fmt.Fprintln(zw, "# fmt/op/variant/group\trows\taccepted bitmap (hex, bit i of byte i/8)\tsha256 over bytes+expectation of accepted rows")
	reasons := map[string]int{}
	examples := map[string]string{}
	total, accepted := 0, 0
	// process rows in batches to bound memory
	const batch = 40
	for lo := 0; lo < len(rows); lo += batch {
		hi := lo + batch
		if hi > len(rows) {
			hi = len(rows)
		}
		var items []item
		var words [][]byte
		groups := make([][]enc.Group, hi-lo)
		for ri := lo; ri < hi; ri++ {
			groups[ri-lo] = rows[ri].Groups()
			for gi, g := range groups[ri-lo] {
				if !g.Validated {
					continue
				}
				for di, d := range g.Descs {
					b, err := d.Encode()
					if err != nil {
						fmt.Fprintln(os.Stderr, "encode:", err, d.Key())
						os.Exit(2)
					}
					items = append(items, item{rows[ri], ri, gi, di})
					words = append(words, b)
				}
			}
		}
		res := disasm(a, words)
		bitmaps := map[string][]byte{}
		for i, it := range items {
			g := &groups[it.ri-lo][it.gi]
			key := fmt.Sprintf("%s/%d/%s/%s", it.row.Fmt, it.row.Op, it.row.Variant, g.Name)
			if bitmaps[key] == nil {
				bitmaps[key] = make([]byte, (len(g.Descs)+7)/8)
			}
			why := enc.Validate(it.row, g.Descs[it.di], words[i], res[i])
			total++
			if why == "" {
				accepted++
				bitmaps[key][it.di/8] |= 1 << uint(it.di%8)
				continue
			}
			cls := why
			if j := strings.IndexByte(why, ' '); j > 0 && strings.HasPrefix(why, "MISMATCH") {
				cls = why[:j]
			}
			cls = it.row.Fmt + " " + strings.SplitN(g.Name, ":", 2)[0] + " " + cls
			reasons[cls]++
			if _, ok := examples[cls]; !ok || strings.HasPrefix(why, "MISMATCH") && len(examples[cls]) < 2000 {
				examples[cls] += fmt.Sprintf("\n      %s op %d %s: %s  [%s]", it.row.Fmt, it.row.Op, g.Name, why, g.Descs[it.di].Key())
			}
		}
		for ri := lo; ri < hi; ri++ {
			for gi := range groups[ri-lo] {
				g := &groups[ri-lo][gi]
				if !g.Validated {
					continue
				}
				key := fmt.Sprintf("%s/%d/%s/%s", rows[ri].Fmt, rows[ri].Op, rows[ri].Variant, g.Name)
				bm := bitmaps[key]
				gg := enc.GroupGolden{N: len(g.Descs), Accepted: bm}
				h := rows[ri].HashGroup(g, gg.Bit)
				fmt.Fprintf(zw, "%s\t%d\t%s\t%s\n", key, len(g.Descs), hex.EncodeToString(bm), h)
			}
		}
	}
	zw.Close()
	f.Close()
	fmt.Printf("%s: %d descriptions sent to llvm-mc, %d confirmed, %d words crashed llvm-mc\n", a, total, accepted, crashed)
	var keys []string
	for k := range reasons {
		keys = append(keys, k)
	}
	sort.Strings(keys)
	for _, k := range keys {
		if strings.Contains(k, "MISMATCH") || verbose {
			ex := examples[k]
			if len(ex) > 1500 {
				ex = ex[:1500] + " ..."
			}
			fmt.Printf("  %-70s %8d%s\n", k, reasons[k], ex)
		} else {
			fmt.Printf("  %-70s %8d\n", k, reasons[k])
		}
	}
}

// allPresentUsed: every non-zero operand field of the probe appears in the row.
func allPresentUsed(d enc.Desc, r *enc.Row) bool {
	for k, v := range d.F {
		if v == 0 {
			continue
		}
		switch k {
		case "literal", "imm", "glc", "gds":
			continue
		case "saddr":
			if v == 0x7f {
				continue
			}
		case "offset0", "offset1":
			if r.DSOff != "" || r.Opaque {
				continue
			}
			return false
		case "simm16":
			if r.Opaque {
				continue
			}
		}
		if r.Operand(k) == nil {
			return false
		}
	}
	return true
}
