// Package dmaworld closes the real driver copy middleware + real command processor + real DMA engines
// with an explorer-driven memory, write-back cache and compute unit. Used by C11 (bytes moved) and C12
// (a command observes the memory effects of its predecessors in its own queue; other queues do not disturb it).
package dmaworld

import (
	"reflect"
	"unsafe"
	"bytes"
	"fmt"
	"regexp"
	"sort"

	"github.com/sarchlab/akita/v4/mem/cache"
	"github.com/sarchlab/akita/v4/mem/mem"
	"github.com/sarchlab/akita/v4/mem/vm"
	"github.com/sarchlab/akita/v4/sim"
	"github.com/sarchlab/akita/v4/sim/directconnection"
	"github.com/sarchlab/mgpusim/v4/amd/driver"
	"github.com/sarchlab/mgpusim/v4/amd/insts"
	"github.com/sarchlab/mgpusim/v4/amd/kernels"
	"github.com/sarchlab/mgpusim/v4/amd/protocol"
	"github.com/sarchlab/mgpusim/v4/amd/timing/cp"

	"verif/mc/explore"
	"verif/mc/harness"
	"verif/mc/world"
)

// ---------------------------------------------------------------------------
// Part (b): the DMA copy path. Real driver (defaultMemoryCopyMiddleware), real
// CommandProcessor (cpMiddleware), real DMAEngine per GPU, real akita direct
// connection between them, under the real serial engine. The environment is
// the application thread (enqueues copies before the run) and the memory
// below the DMA engines; the explorer owns the order and delay of the memory
// responses and the back-pressure on the DMA-to-memory wire.

// Large pages keep driver construction cheap (the CPU device owns 4 GiB / page
// size frames); page CROSSING only needs a range around a page boundary. Copies
// that span three pages use 4 KiB pages (one full middle page = 64 transactions).
const BPage = 1 << 16

type Job struct {
	Queue int    `json:"queue"`
	H2D   bool   `json:"h2d"`
	Off   uint64 `json:"offset"`
	Len   uint64 `json:"length"`
	// Kernel: a kernel launch instead of a copy. The kernel (one work-group on
	// the environment's compute unit) stores its pattern into [Off, Off+Len);
	// the stores sit dirty in the environment's write-back cache until a flush.
	Kernel bool `json:"kernel,omitempty"`
	// Phase: the job is enqueued only when everything of the earlier phases has completed and the world is quiet
	// (a queue that has already executed commands when a new batch arrives)
	Phase int `json:"phase,omitempty"`
}

type Cfg struct {
	Name     string `json:"name"`
	NGPU     int    `json:"ngpu"`
	Pages    int    `json:"buffer_pages"`
	Jobs     []Job  `json:"jobs"`
	MaxReq   uint64 `json:"max_request_count"`
	Cycles   int    `json:"middleware_cycles"`
	Log2Page uint64 `json:"log2_page"` // 0 = 16
	Dirty    bool   `json:"dirty"`     // buffers marked dirty as after a kernel launch: copies are preceded by a flush of every GPU
	// QueueCtx: context of every queue (index; 0 = the first context, k > 0 =
	// the k-th sibling made with InitWithExistingPID). nil = all in context 0.
	QueueCtx []int `json:"queue_ctx,omitempty"`
	// DrvPortCap > 0: the driver's GPU-facing port holds only that many outgoing messages (the shipped builder gives it
	// 40 960 000): a command that issues several requests in one tick finds the port full and has to retry
	DrvPortCap int `json:"driver_port_outgoing_capacity,omitempty"`
	// D2HCycles > 0: the driver's set-up delay of device-to-host copies differs from that of host-to-device copies
	// (Cycles), as on the shipped timing platforms (500 / 300)
	D2HCycles int `json:"d2h_cycles,omitempty"`
	// SlowMem > 0: the memory below the DMA engine takes one transaction per SlowMem cycles (a memory clocked below
	// the engine, or busy with other traffic), so the engine's 64-entry outgoing buffer fills up and Send is refused
	SlowMem  int  `json:"slow_memory_every,omitempty"`
	NoStall  bool `json:"-"`
	NoDelays bool `json:"-"`
}

// envCU is the compute unit the environment plays (resources of a GCN3 CU).
type envCU struct{ name string }

func (c *envCU) DispatchingPort() sim.RemotePort { return sim.RemotePort(c.name + ".Dispatch") }
func (c *envCU) ControlPort() sim.RemotePort     { return sim.RemotePort(c.name + ".Ctrl") }
func (c *envCU) WfPoolSizes() []int              { return []int{10, 10, 10, 10} }
func (c *envCU) VRegCounts() []int               { return []int{16384, 16384, 16384, 16384} }
func (c *envCU) SRegCount() int                  { return 3200 }
func (c *envCU) LDSBytes() int                   { return 65536 }

// kernBytes is what kernel job i stores.
func kernBytes(job int, n uint64) []byte {
	out := make([]byte, n)
	for i := range out {
		out[i] = byte(0xB1 + job*0x23 + i*5)
	}
	return out
}

type sendHook struct{ f func(m sim.Msg) }

func (h sendHook) Func(ctx sim.HookCtx) {
	if ctx.Pos == sim.HookPosPortMsgSend {
		h.f(ctx.Item.(sim.Msg))
	}
}

// one driver-level piece (one MemCopy request to one GPU)
type piece struct {
	gpu      int
	h2d      bool
	paddr    uint64
	n        uint64
	data     []byte // h2d payload
	dst      []byte // d2h destination slice
	covered  []bool
	txs      int
	answered int
	done     int
	job      int
}

type memTx struct {
	p        *piece
	answered bool
	write    bool
	addr     uint64
	n        uint64
}

func Body(c Cfg) explore.Body {
	return func(x *explore.Exec) *explore.Violation {
		w := world.New(x, 3000)
		bLog2Page := c.Log2Page
		if bLog2Page == 0 {
			bLog2Page = 16
		}
		BPage := uint64(1) << bLog2Page
		var viol *explore.Violation
		fail := func(sig, f string, a ...any) {
			if viol == nil {
				viol = explore.Viol("dma/"+sig, f, a...)
			}
		}

		pt := vm.NewPageTable(bLog2Page)
		d2hCycles := c.Cycles
		if c.D2HCycles > 0 {
			d2hCycles = c.D2HCycles
		}
		drv := driver.MakeBuilder().WithEngine(w.Engine).WithFreq(w.Freq).WithLog2PageSize(bLog2Page).
			WithPageTable(pt).WithH2DCycles(c.Cycles).WithD2HCycles(d2hCycles).Build("Driver")
		conn := directconnection.MakeBuilder().WithEngine(w.Engine).WithFreq(w.Freq).Build("Conn")
		gpuPort := drv.GetPortByName("GPU")
		if c.DrvPortCap > 0 {
			setOutgoingCapacity(gpuPort, c.DrvPortCap)
		}
		conn.PlugIn(gpuPort)

		// memory image: every GPU owns 8 pages, initialised with a pattern
		memory := map[uint64]byte{}
		refImg := map[uint64]byte{}
		gpuBase := func(g int) uint64 { return (4 << 30) + BPage + uint64(g)*8*BPage }
		var cps []*cp.CommandProcessor
		var dmas []*cp.DMAEngine
		var mappers []*mem.InterleavedAddressPortMapper
		var sinks []*world.Sink
		var feeders []*world.Feeder
		var pieces []*piece
		evSeq, lastFlushAck, lastCopyRsp := 0, 0, 0
		// write-back cache model: kernel stores stay here (per GPU) until a flush
		// of that GPU is taken; DMA reads and writes go to `memory` (DRAM)
		caches := make([]map[uint64]byte, c.NGPU)
		for g := range caches {
			caches[g] = map[uint64]byte{}
		}
		kernelOfPacket := map[*kernels.HsaKernelDispatchPacket]int{}
		kernelDone := map[int]int{}
		var kernelStores func(job int) // set below, needs the translation
		flushes := make([]int, c.NGPU)
		flushAcks := make([]int, c.NGPU)
		txByID := map[string]*memTx{}
		pieceByID := map[string]*piece{}
		var trace bytes.Buffer

		for g := 0; g < c.NGPU; g++ {
			g := g
			name := fmt.Sprintf("GPU%d", g+1)
			cu := &envCU{name: name + ".CU"}
			p := cp.MakeBuilder().WithEngine(w.Engine).WithFreq(w.Freq).WithCU(cu).WithConstantKernelOverhead(2).Build(name + ".CP") // the default post-completion overhead is 3600 cycles; 2 keeps executions short
			mp := mem.NewInterleavedAddressPortMapper(4096)
			mp.LowModules = []sim.RemotePort{sim.RemotePort(name + ".Mem0"), sim.RemotePort(name + ".Mem1")}
			d := cp.NewDMAEngine(name+".DMA", w.Engine, mp)
			if c.MaxReq > 0 {
				cp.VerifDMASetMaxRequestCount(d, c.MaxReq)
			}
			p.DMAEngine = d.ToCP
			p.Driver = gpuPort
			conn.PlugIn(p.ToDriver)
			conn.PlugIn(p.ToDMA)
			conn.PlugIn(d.ToCP)
			w.NewWire(name+".memwire", d.ToMem)
			drv.RegisterGPU(p.ToDriver, driver.DeviceProperties{CUCount: 4, DRAMSize: 8 * BPage})
			cps, dmas, mappers = append(cps, p), append(dmas, d), append(mappers, mp)
			// device memory starts out non-zero everywhere (initByte); `memory` and
			// `refImg` only hold the bytes written since

			// --- what the DMA engine sends to memory
			d.ToMem.AcceptHook(sendHook{func(m sim.Msg) {
				var addr, n uint64
				var wr *mem.WriteReq
				switch r := m.(type) {
				case *mem.WriteReq:
					addr, n, wr = r.Address, uint64(len(r.Data)), r
				case *mem.ReadReq:
					addr, n = r.Address, r.AccessByteSize
				default:
					fail("mem/unexpected-message", "%T sent to memory", m)
					return
				}
				if n == 0 {
					fail("mem/empty-transaction", "transaction of 0 bytes at %#x", addr)
					return
				}
				if addr>>6 != (addr+n-1)>>6 {
					fail("mem/transaction-crosses-64B-line", "transaction [%#x,%#x) crosses a 64-byte boundary", addr, addr+n)
				}
				if m.Meta().Dst != mp.Find(addr) {
					fail("mem/wrong-memory-module", "transaction at %#x sent to %s, mapper says %s", addr, m.Meta().Dst, mp.Find(addr))
				}
				var owner *piece
				for _, pc := range pieces {
					if pc.gpu == g && pc.done == 0 && addr >= pc.paddr && addr+n <= pc.paddr+pc.n && (wr != nil) == pc.h2d {
						owner = pc
					}
				}
				if owner == nil {
					fail("mem/transaction-outside-copy", "GPU %d %T [%#x,%#x) is not inside any copy request in flight", g+1, m, addr, addr+n)
					return
				}
				for i := addr; i < addr+n; i++ {
					if owner.covered[i-owner.paddr] {
						fail("mem/byte-transferred-twice", "byte %#x of copy [%#x,+%d) transferred twice", i, owner.paddr, owner.n)
						return
					}
					owner.covered[i-owner.paddr] = true
				}
				if wr != nil && !bytes.Equal(wr.Data, owner.data[addr-owner.paddr:addr-owner.paddr+n]) {
					fail("mem/write-data-wrong", "write [%#x,+%d) carries %x, host bytes are %x", addr, n, wr.Data, owner.data[addr-owner.paddr:addr-owner.paddr+n])
				}
				if wr != nil && wr.DirtyMask != nil {
					for _, b := range wr.DirtyMask {
						if !b {
							fail("mem/write-masked", "write [%#x,+%d) has a partial dirty mask", addr, n)
						}
					}
				}
				owner.txs++
				txByID[m.Meta().ID] = &memTx{p: owner, write: wr != nil, addr: addr, n: n}
				fmt.Fprintf(&trace, "T%d:%x+%d;", g+1, addr-gpuBase(g), n)
			}})

			// --- a copy request is handed to the DMA engine only when no cache
			// flush of this GPU is in progress (a copy already inside the DMA
			// engine may overlap a flush requested later for another queue)
			p.ToDMA.AcceptHook(sendHook{func(m sim.Msg) {
				if flushes[g] != flushAcks[g] {
					fail("cp/copy-started-while-flush-in-progress", "GPU %d: %T handed to the DMA engine while a cache flush is still unacknowledged", g+1, m)
				}
			}})

			// --- completion responses of the command processor
			p.ToDriver.AcceptHook(sendHook{func(m sim.Msg) {
				rsp, ok := m.(*sim.GeneralRsp)
				if !ok {
					return
				}
				evSeq++
				if _, isFlush := rsp.OriginalReq.(*protocol.FlushReq); isFlush {
					fmt.Fprintf(&trace, "A%d@%d;", g+1, w.Cycle())
					lastFlushAck = evSeq
					return
				}
				lastCopyRsp = evSeq
				pc := pieceByID[rsp.OriginalReq.Meta().ID]
				if pc == nil {
					fail("cp/response-to-unknown-request", "completion for %s which the driver never sent", rsp.OriginalReq.Meta().ID)
					return
				}
				pc.done++
				fmt.Fprintf(&trace, "C%d@%d;", pc.job, w.Cycle())
				if pc.done > 1 {
					fail("cp/duplicate-completion", "copy piece [%#x,+%d) completed %d times", pc.paddr, pc.n, pc.done)
				}
				if pc.answered != pc.txs {
					fail("cp/completion-before-memory-responses", "copy piece [%#x,+%d) completed with %d of %d memory transactions answered", pc.paddr, pc.n, pc.answered, pc.txs)
				}
				for i, cv := range pc.covered {
					if !cv {
						fail("cp/completion-with-untransferred-bytes", "copy piece [%#x,+%d) completed but byte %d was never transferred", pc.paddr, pc.n, i)
						break
					}
				}
				if m.Meta().Dst != gpuPort.AsRemote() {
					fail("cp/response-wrong-destination", "completion sent to %s", m.Meta().Dst)
				}
			}})

			// --- the memory below: takes transactions (explorer may stall the
			// wire), answers them (explorer chooses delay and order)
			fd := &world.Feeder{W: w, Port: d.ToMem, Tag: fmt.Sprintf("mem%d", g+1), Reorder: true, DelayAlphabet: []int{2, 5}}
			if c.NoDelays {
				fd.DelayAlphabet, fd.Reorder = nil, false
			}
			fd.OnDeliver = func(m sim.Msg) {
				tx := txByID[m.(mem.AccessRsp).GetRspTo()]
				tx.answered = true
				tx.p.answered++
			}
			sk := &world.Sink{W: w, Port: d.ToMem, Tag: fmt.Sprintf("mem%d", g+1), StallAlphabet: []int{1, 4}, NoChoice: c.NoStall}
			if c.SlowMem > 0 {
				sk.Every, sk.NoChoice = c.SlowMem, true
			}
			sk.Handle = func(m sim.Msg) {
				switch r := m.(type) {
				case *mem.WriteReq:
					for i, b := range r.Data {
						if r.DirtyMask == nil || r.DirtyMask[i] {
							memory[r.Address+uint64(i)] = b
						}
					}
					fd.Add(mem.WriteDoneRspBuilder{}.WithSrc(r.Dst).WithDst(d.ToMem.AsRemote()).WithRspTo(r.ID).Build(), true)
				case *mem.ReadReq:
					data := make([]byte, r.AccessByteSize)
					for i := range data {
						data[i] = memGet(memory, r.Address+uint64(i))
					}
					fd.Add(mem.DataReadyRspBuilder{}.WithSrc(r.Dst).WithDst(d.ToMem.AsRemote()).WithRspTo(r.ID).WithData(data).Build(), true)
				}
			}
			sinks, feeders = append(sinks, sk), append(feeders, fd)

			// --- one L2 cache per GPU, played by the environment: acknowledges a
			// flush after an explorer-chosen delay
			l2 := sim.NewPort(w.Env, 4, 4, name+".L2.Control")
			p.L2Caches = append(p.L2Caches, l2)
			w.NewWire(name+".cachewire", p.ToCaches)
			cfd := &world.Feeder{W: w, Port: p.ToCaches, Tag: fmt.Sprintf("l2ack%d", g+1), DelayAlphabet: []int{3, 9}}
			if c.NoDelays {
				cfd.DelayAlphabet = nil
			}
			cfd.OnDeliver = func(sim.Msg) { flushAcks[g]++ }
			csk := &world.Sink{W: w, Port: p.ToCaches, Tag: fmt.Sprintf("l2%d", g+1), NoChoice: true}
			csk.Handle = func(m sim.Msg) {
				fr, ok := m.(*cache.FlushReq)
				if !ok {
					fail("cp/unexpected-cache-message", "%T sent to the L2 cache", m)
					return
				}
				flushes[g]++
				fmt.Fprintf(&trace, "F%d;", g+1)
				// the flush writes back what is dirty when it is taken
				for a, b := range caches[g] {
					memory[a] = b
					refImg[a] = b
				}
				caches[g] = map[uint64]byte{}
				cfd.Add(cache.FlushRspBuilder{}.WithSrc(l2.AsRemote()).WithDst(p.ToCaches.AsRemote()).WithRspTo(fr.ID).Build(), true)
			}
			sinks, feeders = append(sinks, csk), append(feeders, cfd)

			// --- the compute unit, played by the environment: a mapped work-group
			// completes after an explorer-chosen time; its stores are in the cache
			// from that moment on
			w.NewWire(name+".cuwire", p.ToCUs)
			kfd := &world.Feeder{W: w, Port: p.ToCUs, Tag: fmt.Sprintf("kernel-done%d", g+1), Reorder: true, DelayAlphabet: []int{12, 45}}
			if c.NoDelays {
				kfd.DelayAlphabet, kfd.Reorder = nil, false
			}
			wgJob := map[string]int{}
			kfd.OnDeliver = func(m sim.Msg) {
				for _, id := range m.(*protocol.WGCompletionMsg).RspTo {
					job := wgJob[id]
					kernelStores(job)
					kernelDone[job]++
					fmt.Fprintf(&trace, "K%d@%d;", job, w.Cycle())
				}
			}
			ksk := &world.Sink{W: w, Port: p.ToCUs, Tag: fmt.Sprintf("cu%d", g+1), NoChoice: true}
			ksk.Handle = func(m sim.Msg) {
				req, ok := m.(*protocol.MapWGReq)
				if !ok {
					fail("cp/unexpected-cu-message", "%T sent to the compute unit", m)
					return
				}
				job, known := kernelOfPacket[req.WorkGroup.Packet]
				if !known {
					fail("cp/work-group-of-unknown-kernel", "MapWGReq for a kernel the application never launched")
					return
				}
				wgJob[req.ID] = job
				kfd.Add(protocol.WGCompletionMsgBuilder{}.WithSrc(m.Meta().Dst).WithDst(p.ToCUs.AsRemote()).WithRspTo([]string{req.ID}).Build(), true)
			}
			sinks, feeders = append(sinks, ksk), append(feeders, kfd)
		}

		// --- what the driver sends to the GPUs: the page-wise split
		type cmdState struct {
			job  Job
			next uint64 // next virtual offset expected
		}
		var ctx *driver.Context
		var ptr uint64
		var cmds []*cmdState
		translate := func(v uint64) uint64 {
			p, ok := pt.Find(driver.VerifContextPID(ctx), v)
			if !ok {
				panic("reference translation failed")
			}
			return p.PAddr + (v - p.VAddr)
		}
		gpuPort.AcceptHook(sendHook{func(m sim.Msg) {
			var paddr, n uint64
			var h2d bool
			var data, dst []byte
			switch r := m.(type) {
			case *protocol.MemCopyH2DReq:
				paddr, n, h2d, data = r.DstAddress, uint64(len(r.SrcBuffer)), true, r.SrcBuffer
			case *protocol.MemCopyD2HReq:
				paddr, n, dst = r.SrcAddress, uint64(len(r.DstBuffer)), r.DstBuffer
			default:
				return
			}
			// find the command this piece continues: its next byte translates to paddr
			var cs *cmdState
			ji := -1
			for i, c := range cmds {
				if !c.job.Kernel && c.job.H2D == h2d && c.next < c.job.Len && translate(ptr+c.job.Off+c.next) == paddr {
					cs, ji = c, i
					break
				}
			}
			if cs == nil {
				fail("driver/piece-not-contiguous", "driver sent %T for paddr %#x (+%d) that does not continue any copy command", m, paddr, n)
				return
			}
			v := ptr + cs.job.Off + cs.next
			if n == 0 || cs.next+n > cs.job.Len {
				fail("driver/piece-length-wrong", "piece of %d bytes at virtual %#x exceeds the command (offset %d of %d)", n, v, cs.next, cs.job.Len)
				return
			}
			if v/BPage != (v+n-1)/BPage {
				fail("driver/piece-crosses-page", "piece [%#x,+%d) crosses a page boundary", v, n)
			}
			if cs.next+n < cs.job.Len && (v+n)%BPage != 0 {
				fail("driver/piece-ends-inside-page", "piece [%#x,+%d) stops before the page end although the command continues", v, n)
			}
			g := -1
			for i := range cps {
				if paddr >= gpuBase(i) && paddr < gpuBase(i)+8*BPage {
					g = i
				}
			}
			if g < 0 || m.Meta().Dst != cps[g].ToDriver.AsRemote() {
				fail("driver/piece-sent-to-wrong-gpu", "piece for paddr %#x sent to %s", paddr, m.Meta().Dst)
				return
			}
			pc := &piece{gpu: g, h2d: h2d, paddr: paddr, n: n, data: data, dst: dst, covered: make([]bool, n), job: ji}
			if h2d {
				want := hostBytes(ji, cs.job.Len)[cs.next : cs.next+n]
				if !bytes.Equal(data, want) {
					fail("driver/piece-data-wrong", "piece at command offset %d carries %x, host bytes are %x", cs.next, data, want)
				}
				for i := uint64(0); i < n; i++ {
					refImg[paddr+i] = want[i]
				}
			}
			cs.next += n
			pieces = append(pieces, pc)
			pieceByID[m.Meta().ID] = pc
			fmt.Fprintf(&trace, "P%d:g%d+%d;", ji, g+1, n)
		}})

		// --- the application: allocate, distribute, enqueue, kick the driver
		ctx = drv.Init()
		drv.SelectGPU(ctx, 1)
		ptr = uint64(drv.AllocateMemory(ctx, uint64(c.Pages)*BPage))
		if c.NGPU > 1 {
			ids := make([]int, c.NGPU)
			for i := range ids {
				ids[i] = i + 1
			}
			drv.Distribute(ctx, driver.Ptr(ptr), uint64(c.Pages)*BPage, ids)
		}
		if c.Dirty {
			driver.VerifContextMarkBuffersDirty(ctx)
		}
		nq := 0
		for _, j := range c.Jobs {
			if j.Queue+1 > nq {
				nq = j.Queue + 1
			}
		}
		kernelStores = func(job int) {
			j := c.Jobs[job]
			for k, b := range kernBytes(job, j.Len) {
				pa := translate(ptr + j.Off + uint64(k))
				for g := 0; g < c.NGPU; g++ {
					if pa >= gpuBase(g) && pa < gpuBase(g)+8*BPage {
						caches[g][pa] = b
					}
				}
			}
		}
		ctxs := []*driver.Context{ctx}
		var queues []*driver.CommandQueue
		for i := 0; i < nq; i++ {
			ci := 0
			if i < len(c.QueueCtx) {
				ci = c.QueueCtx[i]
			}
			for len(ctxs) <= ci {
				sib := drv.InitWithExistingPID(ctx)
				drv.SelectGPU(sib, 1)
				ctxs = append(ctxs, sib)
			}
			queues = append(queues, drv.CreateCommandQueue(ctxs[ci]))
		}
		outs := make([][]byte, len(c.Jobs))
		phases := 0
		for _, j := range c.Jobs {
			cmds = append(cmds, &cmdState{job: j})
			if j.Phase > phases {
				phases = j.Phase
			}
		}
		enqueuePhase := func(phase int) {
			for i, j := range c.Jobs {
				if j.Phase != phase {
					continue
				}
				if j.Kernel {
					co := &insts.KernelCodeObject{KernelCodeObjectMeta: &insts.KernelCodeObjectMeta{}}
					co.WFSgprCount, co.WIVgprCount = 16, 8
					pk := &kernels.HsaKernelDispatchPacket{WorkgroupSizeX: 64, WorkgroupSizeY: 1, WorkgroupSizeZ: 1, GridSizeX: 64, GridSizeY: 1, GridSizeZ: 1}
					kernelOfPacket[pk] = i
					// what EnqueueLaunchKernel enqueues last (its three preparatory H2D
					// copies of code object, arguments and packet are left out: the
					// environment's compute unit does not read them)
					drv.Enqueue(queues[j.Queue], &driver.LaunchKernelCommand{ID: sim.GetIDGenerator().Generate(), CodeObject: co, Packet: pk})
					continue
				}
				if j.H2D {
					drv.EnqueueMemCopyH2D(queues[j.Queue], driver.Ptr(ptr+j.Off), hostBytes(i, j.Len))
				} else {
					outs[i] = make([]byte, j.Len)
					drv.EnqueueMemCopyD2H(queues[j.Queue], outs[i], driver.Ptr(ptr+j.Off))
				}
			}
			drv.TickLater()
		}
		enqueuePhase(0)

		w.Step = func() bool {
			pending := false
			for g := range sinks {
				pending = sinks[g].Step(4) || pending
				pending = feeders[g].Step(4) || pending
			}
			return pending
		}
		quiet, pmsg := runGuarded(w)
		for ph := 1; ph <= phases && quiet && pmsg == "" && viol == nil; ph++ {
			enqueuePhase(ph)
			quiet, pmsg = runGuarded(w)
		}
		if viol != nil {
			return viol // what the monitors saw first explains a later panic
		}
		if pmsg != "" {
			return explore.Viol("dma/panic:"+digits.ReplaceAllString(pmsg, "N"), "panic while the copies were in flight: %s; trace %s", pmsg, trace.String())
		}
		if !quiet {
			return nil
		}

		// --- end of run
		for i, q := range queues {
			if q.NumCommand() != 0 {
				sig := "dma/copy-never-completes"
				if lastFlushAck > lastCopyRsp && lastCopyRsp > 0 {
					sig += "/flush-ack-of-another-gpu-after-last-copy-response"
				}
				return explore.Viol(sig, "queue %d still holds %d command(s) at quiescence although every request was answered; trace %s", i, q.NumCommand(), trace.String())
			}
		}
		for _, pc := range pieces {
			if pc.done != 1 {
				return explore.Viol("dma/piece-completions", "piece [%#x,+%d) completed %d times", pc.paddr, pc.n, pc.done)
			}
		}
		for i, j := range c.Jobs {
			if j.Kernel && kernelDone[i] != 1 {
				return explore.Viol("dma/kernel-completions", "kernel job %d completed %d times", i, kernelDone[i])
			}
		}
		for i, cs := range cmds {
			if cs.job.Kernel {
				continue
			}
			if cs.next != cs.job.Len {
				return explore.Viol("dma/driver/command-not-fully-split", "command %d: pieces cover %d of %d bytes", i, cs.next, cs.job.Len)
			}
		}
		for g := range dmas {
			a, b, cc, d := cp.VerifDMAOutstanding(dmas[g])
			if a+b+cc+d+cp.VerifDMACPOutstanding(cps[g]) != 0 {
				return explore.Viol("dma/leftover-work", "GPU %d at quiescence: processing %d pending %d toMem %d toCP %d cpMap %d", g+1, a, b, cc, d, cp.VerifDMACPOutstanding(cps[g]))
			}
		}
		// memory image vs reference (bytes outside the copies untouched)
		var addrs []uint64
		for a := range memory {
			addrs = append(addrs, a)
		}
		for a := range refImg {
			if _, ok := memory[a]; !ok {
				addrs = append(addrs, a)
			}
		}
		sort.Slice(addrs, func(i, j int) bool { return addrs[i] < addrs[j] })
		for _, a := range addrs {
			if memGet(memory, a) != memGet(refImg, a) {
				return explore.Viol("dma/memory-image-differs", "memory[%#x] = %#x, reference %#x; trace %s", a, memGet(memory, a), memGet(refImg, a), trace.String())
			}
		}
		// D2H results: a D2H job in a queue sees every earlier H2D of the same queue
		for i, j := range c.Jobs {
			if j.H2D || j.Kernel {
				continue
			}
			want := make([]byte, j.Len)
			for k := range want {
				want[k] = d2hExpect(c, i, uint64(k), func(v uint64) byte {
					pa := translate(v)
					if b, ok := initialByte(pa, gpuBase, c.NGPU, BPage); ok {
						return b
					}
					return 0
				}, ptr)
			}
			if !bytes.Equal(outs[i], want) {
				k := uint64(firstDiff(outs[i], want))
				if src := d2hSource(c, i, k); src >= 0 && c.Jobs[src].Kernel {
					return explore.Viol("dma/d2h-misses-kernel-write", "D2H job %d (queue %d, offset %d length %d) does not return what kernel job %d, its predecessor in the same queue, stored: byte %d is %#x, the kernel wrote %#x; trace %s",
						i, j.Queue, j.Off, j.Len, src, k, at(outs[i], int(k)), at(want, int(k)), trace.String())
				}
				return explore.Viol("dma/d2h-data-wrong", "D2H job %d (offset %d length %d) returned a wrong byte at %d: got %#x want %#x; trace %s", i, j.Off, j.Len, firstDiff(outs[i], want), at(outs[i], firstDiff(outs[i], want)), at(want, firstDiff(outs[i], want)), trace.String())
			}
		}
		x.Outcome(trace.String())
		return nil
	}
}

// setOutgoingCapacity narrows the outgoing buffer of an akita port (sim.defaultPort.outgoingBuf is a
// *sim.bufferImpl with an int field "capacity"). The driver's builder does not export the size of its GPU port.
func setOutgoingCapacity(p sim.Port, n int) {
	buf := reflect.ValueOf(p).Elem().FieldByName("outgoingBuf")
	impl := reflect.NewAt(buf.Type(), unsafe.Pointer(buf.UnsafeAddr())).Elem().Elem().Elem() // interface -> pointer -> struct
	f := impl.FieldByName("capacity")
	reflect.NewAt(f.Type(), unsafe.Pointer(f.UnsafeAddr())).Elem().SetInt(int64(n))
}

var digits = regexp.MustCompile(`[0-9]+`)

// runGuarded runs the world and turns a panic of the components into a message.
func runGuarded(w *world.World) (quiet bool, panicMsg string) {
	defer func() {
		if e := recover(); e != nil {
			panicMsg = fmt.Sprint(e)
			if len(panicMsg) > 200 {
				panicMsg = panicMsg[:200]
			}
		}
	}()
	return w.Run(), ""
}

func at(b []byte, i int) byte {
	if i < len(b) {
		return b[i]
	}
	return 0
}

// hostBytes is the host data of job i.
func hostBytes(job int, n uint64) []byte {
	out := make([]byte, n)
	for i := range out {
		out[i] = byte(0x51 + job*0x1d + i*3)
		// long copies carry a run of 128 zero bytes (at least one whole aligned
		// 64-byte unit is all zero wherever the copy starts): a unit that is
		// skipped or assumed zero leaves the destination's non-zero bytes behind
		if n >= 144 && i >= 8 && i < 136 {
			out[i] = 0
		}
	}
	return out
}

func initialByte(pa uint64, gpuBase func(int) uint64, n int, BPage uint64) (byte, bool) {
	return initByte(pa), true
}

// initByte is the content of device memory before the run: never zero, so
// that a transfer unit that is dropped or assumed zero shows.
func initByte(pa uint64) byte { return byte(pa*7+1) | 0x80 }

func memGet(m map[uint64]byte, a uint64) byte {
	if b, ok := m[a]; ok {
		return b
	}
	return initByte(a)
}

// d2hExpect is the byte a D2H job must return at index k: the last H2D that
// precedes it IN THE SAME QUEUE and covers the byte, else the initial memory.
// Jobs of different queues never overlap in these scenarios.
func d2hExpect(c Cfg, job int, k uint64, initial func(v uint64) byte, ptr uint64) byte {
	j := c.Jobs[job]
	v := j.Off + k
	if i := d2hSource(c, job, k); i >= 0 {
		if c.Jobs[i].Kernel {
			return kernBytes(i, c.Jobs[i].Len)[v-c.Jobs[i].Off]
		}
		return hostBytes(i, c.Jobs[i].Len)[v-c.Jobs[i].Off]
	}
	return initial(ptr + v)
}

// d2hSource is the job that last wrote byte k of D2H job `job` before it in
// the same queue (H2D or kernel), or -1 for the initial memory.
func d2hSource(c Cfg, job int, k uint64) int {
	j := c.Jobs[job]
	v := j.Off + k
	for i := job - 1; i >= 0; i-- {
		h := c.Jobs[i]
		if (h.H2D || h.Kernel) && h.Queue == j.Queue && v >= h.Off && v < h.Off+h.Len {
			return i
		}
	}
	return -1
}

// Scenarios are the interleaving scenarios of C11 part (b).
func Scenarios(thorough bool) []harness.Scenario {
	bound := 2
	if thorough {
		bound = 3
	}
	var scs []harness.Scenario
	add := func(c Cfg, b int) {
		scs = append(scs, harness.Scenario{Name: c.Name, Bound: b, Body: Body(c)})
	}
	// one queue: H2D across a page boundary (two GPUs), then D2H of a sub-range
	add(Cfg{Name: "b/2gpu/h2d-then-d2h/page-crossing", NGPU: 2, Pages: 2, MaxReq: 4,
		Jobs: []Job{{Queue: 0, H2D: true, Off: BPage - 70, Len: 140}, {Queue: 0, H2D: false, Off: BPage - 65, Len: 130}}}, bound)
	// unaligned short copies inside one line and across one line boundary
	add(Cfg{Name: "b/1gpu/unaligned-lines", NGPU: 1, Pages: 1, MaxReq: 4,
		Jobs: []Job{{Queue: 0, H2D: true, Off: 3, Len: 61}, {Queue: 0, H2D: true, Off: 63, Len: 3}, {Queue: 0, H2D: false, Off: 1, Len: 67}}}, bound)
	// two queues in flight at once, disjoint ranges, DMA limited to one request at a time
	add(Cfg{Name: "b/1gpu/two-queues/maxreq1", NGPU: 1, Pages: 1, MaxReq: 1,
		Jobs: []Job{{Queue: 0, H2D: true, Off: 0, Len: 65}, {Queue: 1, H2D: true, Off: 128, Len: 70}, {Queue: 0, H2D: false, Off: 0, Len: 65}, {Queue: 1, H2D: false, Off: 130, Len: 64}}}, bound)
	add(Cfg{Name: "b/2gpu/two-queues/maxreq2/cycles3", NGPU: 2, Pages: 2, MaxReq: 2, Cycles: 3,
		Jobs: []Job{{Queue: 0, H2D: true, Off: BPage - 3, Len: 67}, {Queue: 1, H2D: true, Off: 200, Len: 64}, {Queue: 1, H2D: false, Off: 199, Len: 66}, {Queue: 0, H2D: false, Off: BPage - 1, Len: 2}}}, bound)
	// buffers dirty as after a kernel: every copy is preceded by a flush of BOTH GPUs although it touches one
	add(Cfg{Name: "b/2gpu/dirty/flush-all-copy-one", NGPU: 2, Pages: 2, MaxReq: 4, Dirty: true,
		Jobs: []Job{{Queue: 0, H2D: true, Off: 5, Len: 60}, {Queue: 0, H2D: false, Off: 5, Len: 60}}}, bound)
	// kernels on two queues of ONE process, each followed by a D2H of its output: the explorer owns the kernels'
	// completion times, the flush acknowledgement delays and the memory responses
	add(Cfg{Name: "b/1gpu/two-queues/kernel-then-d2h", NGPU: 1, Pages: 1, MaxReq: 4,
		Jobs: []Job{{Queue: 0, Kernel: true, Off: 0, Len: 70}, {Queue: 1, Kernel: true, Off: 256, Len: 66}, {Queue: 0, Off: 0, Len: 70}, {Queue: 1, Off: 255, Len: 68}}}, bound)
	add(Cfg{Name: "b/1gpu/sibling-contexts/kernel-then-d2h", NGPU: 1, Pages: 1, MaxReq: 4, QueueCtx: []int{0, 1},
		Jobs: []Job{{Queue: 0, Kernel: true, Off: 3, Len: 61}, {Queue: 1, Kernel: true, Off: 128, Len: 64}, {Queue: 0, Off: 3, Len: 61}, {Queue: 1, Off: 128, Len: 64}}}, bound)
	// a kernel launched on GPU 1 writes a range that continues in GPU 2's memory (its stores sit dirty in GPU 2's
	// cache, where no kernel was launched), then the range is read back: the flush must reach every GPU (seed C11-8)
	add(Cfg{Name: "b/2gpu/kernel-on-gpu1-writes-gpu2-memory-then-d2h", NGPU: 2, Pages: 2, MaxReq: 4,
		Jobs: []Job{{Queue: 0, H2D: true, Off: BPage - 20, Len: 40}, {Queue: 0, Kernel: true, Off: BPage - 8, Len: 16}, {Queue: 0, Off: BPage - 20, Len: 40}}}, bound)
	add(Cfg{Name: "b/3gpu/kernel-writes-all-three-memories-then-d2h/4KiB-pages", NGPU: 3, Pages: 3, MaxReq: 4, Log2Page: 12,
		Jobs: []Job{{Queue: 0, Kernel: true, Off: 4096 - 4, Len: 4096 + 8}, {Queue: 0, Off: 4096 - 4, Len: 4096 + 8}}}, 1)
	// different set-up delays for the two directions and two queues: a host-to-device copy is waiting out its (longer)
	// delay when a device-to-host copy of another queue becomes ready first (seed C11-9)
	add(Cfg{Name: "b/1gpu/two-queues/h2d-delay9-d2h-delay4", NGPU: 1, Pages: 1, MaxReq: 4, Cycles: 9, D2HCycles: 4,
		Jobs: []Job{{Queue: 0, H2D: true, Off: 0, Len: 70}, {Queue: 1, Off: 256, Len: 66}, {Queue: 0, Off: 0, Len: 70}, {Queue: 1, H2D: true, Off: 300, Len: 10}}}, bound)
	add(Cfg{Name: "b/2gpu/two-queues/h2d-delay5-d2h-delay12/page-crossing", NGPU: 2, Pages: 2, MaxReq: 2, Cycles: 5, D2HCycles: 12,
		Jobs: []Job{{Queue: 0, Off: BPage - 10, Len: 20}, {Queue: 1, H2D: true, Off: 100, Len: 64}, {Queue: 0, H2D: true, Off: BPage - 4, Len: 8}, {Queue: 1, Off: 90, Len: 80}}}, bound)
	// the driver's GPU-facing port refuses a request (one-entry outgoing buffer) while a multi-page copy issues one
	// request per page in the same tick: the refused request has to be sent later (seed C12-9)
	add(Cfg{Name: "b/2gpu/driver-port-capacity1/4KiB-pages/four-page-copies", NGPU: 2, Pages: 5, MaxReq: 4, Log2Page: 12, DrvPortCap: 1,
		Jobs: []Job{{Queue: 0, H2D: true, Off: 4096 - 8, Len: 3*4096 + 16}, {Queue: 0, Off: 4096 - 8, Len: 3*4096 + 16}}}, bound-2)
	add(Cfg{Name: "b/1gpu/driver-port-capacity2/two-queues", NGPU: 1, Pages: 1, MaxReq: 4, DrvPortCap: 2,
		Jobs: []Job{{Queue: 0, H2D: true, Off: 0, Len: 65}, {Queue: 1, H2D: true, Off: 128, Len: 70}, {Queue: 0, Off: 0, Len: 65}, {Queue: 1, Off: 130, Len: 64}}}, bound)
	// sustained back-pressure below the DMA engine: copies of more transactions than the engine's outgoing buffer
	// holds (64) against a memory that takes one transaction per 4 cycles; two queues keep several requests in flight
	add(Cfg{Name: "b/1gpu/slow-memory4/8KiB-page", NGPU: 1, Pages: 1, MaxReq: 4, Log2Page: 13, SlowMem: 4,
		Jobs: []Job{{Queue: 0, H2D: true, Off: 0, Len: 8192}, {Queue: 0, H2D: false, Off: 0, Len: 8192}}}, 1)
	add(Cfg{Name: "b/2gpu/slow-memory3/two-queues/8KiB-pages", NGPU: 2, Pages: 2, MaxReq: 4, Log2Page: 13, SlowMem: 3,
		Jobs: []Job{{Queue: 0, H2D: true, Off: 100, Len: 8192}, {Queue: 1, H2D: true, Off: 8192 + 300, Len: 6000}, {Queue: 0, H2D: false, Off: 90, Len: 8200}, {Queue: 1, H2D: false, Off: 8192 + 290, Len: 6010}}}, 0)
	if thorough {
		add(Cfg{Name: "b/2gpu/two-queues/kernel-then-d2h-then-h2d/page-crossing", NGPU: 2, Pages: 2, MaxReq: 2, QueueCtx: []int{0, 1},
			Jobs: []Job{{Queue: 0, Kernel: true, Off: BPage - 40, Len: 80}, {Queue: 1, Kernel: true, Off: 512, Len: 64}, {Queue: 0, Off: BPage - 40, Len: 80},
				{Queue: 1, Off: 512, Len: 64}, {Queue: 1, H2D: true, Off: 512, Len: 32}, {Queue: 1, Off: 510, Len: 40}}}, 2)
		add(Cfg{Name: "b/3gpu/three-pages/4KiB-pages", NGPU: 3, Pages: 3, MaxReq: 4, Log2Page: 12,
			Jobs: []Job{{Queue: 0, H2D: true, Off: 4096 - 3, Len: 4096 + 5}, {Queue: 0, H2D: false, Off: 4096 - 1, Len: 4096 + 2}}}, 1)
		add(Cfg{Name: "b/4gpu/two-queues", NGPU: 4, Pages: 4, MaxReq: 4, Cycles: 1,
			Jobs: []Job{{Queue: 0, H2D: true, Off: BPage - 1, Len: 66}, {Queue: 1, H2D: true, Off: 3*BPage - 65, Len: 129}, {Queue: 0, H2D: false, Off: BPage - 1, Len: 66}, {Queue: 1, H2D: false, Off: 3*BPage - 64, Len: 127}}}, 2)
	}
	return scs
}

func firstDiff(a, b []byte) int {
	for i := range a {
		if i >= len(b) || a[i] != b[i] {
			return i
		}
	}
	return len(a)
}

// QueueScenarios are the scenarios of C12's memory-effects part: several
// queues (and sibling contexts) of ONE process whose commands are kernels and
// copies; every D2H must return what the last writer before it in its own
// queue stored, whatever the other queues do meanwhile.
func QueueScenarios(thorough bool) []harness.Scenario {
	bound := 2
	var scs []harness.Scenario
	add := func(c Cfg, b int) {
		scs = append(scs, harness.Scenario{Name: c.Name, Bound: b, Body: Body(c)})
	}
	// one queue, strict FIFO of effects: H2D, kernel over part of it, D2H of both, H2D over part, D2H
	add(Cfg{Name: "q/1gpu/one-queue/h2d-kernel-d2h-h2d-d2h", NGPU: 1, Pages: 1, MaxReq: 4,
		Jobs: []Job{{Queue: 0, H2D: true, Off: 0, Len: 64}, {Queue: 0, Kernel: true, Off: 32, Len: 64}, {Queue: 0, Off: 0, Len: 96},
			{Queue: 0, H2D: true, Off: 40, Len: 10}, {Queue: 0, Off: 30, Len: 30}}}, bound)
	// two queues of one context, a kernel then a D2H of its output on each
	add(Cfg{Name: "q/1gpu/two-queues/kernel-then-d2h", NGPU: 1, Pages: 1, MaxReq: 4,
		Jobs: []Job{{Queue: 0, Kernel: true, Off: 0, Len: 70}, {Queue: 1, Kernel: true, Off: 256, Len: 66}, {Queue: 0, Off: 0, Len: 70}, {Queue: 1, Off: 255, Len: 68}}}, bound)
	// the other queue only copies (its flush acknowledgements arrive while this queue's kernel runs)
	add(Cfg{Name: "q/1gpu/two-queues/kernel-d2h-vs-copies", NGPU: 1, Pages: 1, MaxReq: 4,
		Jobs: []Job{{Queue: 1, Kernel: true, Off: 512, Len: 8}, {Queue: 0, Kernel: true, Off: 0, Len: 66}, {Queue: 1, Off: 512, Len: 8}, {Queue: 1, H2D: true, Off: 600, Len: 8},
			{Queue: 0, Off: 0, Len: 66}}}, bound)
	add(Cfg{Name: "q/1gpu/sibling-contexts/kernel-then-d2h", NGPU: 1, Pages: 1, MaxReq: 4, QueueCtx: []int{0, 1},
		Jobs: []Job{{Queue: 0, Kernel: true, Off: 3, Len: 61}, {Queue: 1, Kernel: true, Off: 128, Len: 64}, {Queue: 0, Off: 3, Len: 61}, {Queue: 1, Off: 128, Len: 64}}}, bound)
	add(Cfg{Name: "q/2gpu/two-queues/kernel-then-d2h/page-crossing", NGPU: 2, Pages: 2, MaxReq: 2,
		Jobs: []Job{{Queue: 0, Kernel: true, Off: BPage - 8, Len: 16}, {Queue: 1, Kernel: true, Off: 512, Len: 8}, {Queue: 0, Off: BPage - 8, Len: 16}, {Queue: 1, Off: 512, Len: 8}}}, bound)
	// the driver's GPU-facing port holds one outgoing message: the per-page requests of a four-page copy are refused
	// and have to be retried; the drain must still return with every command done (seed C12-9)
	add(Cfg{Name: "q/2gpu/driver-port-capacity1/four-page-h2d-then-d2h", NGPU: 2, Pages: 5, MaxReq: 4, Log2Page: 12, DrvPortCap: 1, NoStall: true, NoDelays: true,
		Jobs: []Job{{Queue: 0, H2D: true, Off: 4096 - 8, Len: 3*4096 + 16}, {Queue: 0, Off: 4096 - 8, Len: 3*4096 + 16}}}, 0)
	add(Cfg{Name: "q/1gpu/driver-port-capacity1/two-queues/kernel-then-d2h", NGPU: 1, Pages: 1, MaxReq: 4, DrvPortCap: 1,
		Jobs: []Job{{Queue: 0, Kernel: true, Off: 0, Len: 70}, {Queue: 1, Kernel: true, Off: 256, Len: 66}, {Queue: 0, Off: 0, Len: 70}, {Queue: 1, Off: 255, Len: 68}}}, bound)
	// a queue that has already executed some commands receives a backlog longer than any small power of two before
	// the simulation dequeues again: every command still takes effect in submission order (each read-back returns
	// the write just before it). Warm-up and backlog lengths sweep around 16, 32 and 64.
	for _, warm := range []int{1, 3, 5, 15} {
		for _, backlog := range []int{17, 20, 33, 40, 70} {
			if !thorough && (warm == 5 || backlog == 20 || backlog == 70) {
				continue
			}
			var jobs []Job
			for i := 0; i < warm; i++ {
				jobs = append(jobs, Job{Queue: 0, H2D: true, Off: 64, Len: 4})
			}
			for i := 0; i < backlog; i++ {
				jobs = append(jobs, Job{Queue: 0, H2D: i%2 == 0, Off: 0, Len: 8, Phase: 1})
			}
			add(Cfg{Name: fmt.Sprintf("q/1gpu/one-queue/%d-executed-then-backlog-of-%d", warm, backlog), NGPU: 1, Pages: 1, MaxReq: 4, NoStall: true, NoDelays: true, Jobs: jobs}, 0)
		}
	}
	if thorough {
		add(Cfg{Name: "q/1gpu/three-queues/kernel-then-d2h", NGPU: 1, Pages: 1, MaxReq: 4, QueueCtx: []int{0, 0, 1},
			Jobs: []Job{{Queue: 0, Kernel: true, Off: 0, Len: 8}, {Queue: 1, Kernel: true, Off: 128, Len: 8}, {Queue: 2, Kernel: true, Off: 256, Len: 8},
				{Queue: 0, Off: 0, Len: 8}, {Queue: 1, Off: 128, Len: 8}, {Queue: 2, Off: 256, Len: 8}}}, 2)
		add(Cfg{Name: "q/2gpu/two-queues/kernel-then-d2h-then-h2d/page-crossing", NGPU: 2, Pages: 2, MaxReq: 2, QueueCtx: []int{0, 1},
			Jobs: []Job{{Queue: 0, Kernel: true, Off: BPage - 40, Len: 80}, {Queue: 1, Kernel: true, Off: 512, Len: 64}, {Queue: 0, Off: BPage - 40, Len: 80},
				{Queue: 1, Off: 512, Len: 64}, {Queue: 1, H2D: true, Off: 512, Len: 32}, {Queue: 1, Off: 510, Len: 40}}}, 3)
		add(Cfg{Name: "q/1gpu/two-queues/two-kernels-each", NGPU: 1, Pages: 1, MaxReq: 4,
			Jobs: []Job{{Queue: 0, Kernel: true, Off: 0, Len: 16}, {Queue: 1, Kernel: true, Off: 256, Len: 16}, {Queue: 0, Kernel: true, Off: 8, Len: 16}, {Queue: 1, Kernel: true, Off: 264, Len: 16},
				{Queue: 0, Off: 0, Len: 24}, {Queue: 1, Off: 256, Len: 24}}}, 2)
	}
	return scs
}
