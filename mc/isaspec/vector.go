package isaspec

import (
	"math"
	"math/bits"
)

// VCtx is the per-lane view of a vector opcode's semantics.
type VCtx struct {
	S    [3]uint64 // sources after input modifiers
	Mod  [3]bool   // the abs input modifier was applied to the source
	Cin  bool      // this lane's bit of the mask source (carry-in / select)
	D0   uint64    // old destination value of this lane
	Lane int
	EXEC uint64

	D       uint64
	WD      bool
	Alt     []uint64 // other acceptable destination values
	NaNOK   bool     // any NaN (of NaNBits width) is acceptable
	NaNBits int
	AnyD    bool // destination not determined by the manual for this input
	C       bool // this lane's bit of the mask destination
	WC      bool
	AnyC    bool
}

func (c *VCtx) setD(v uint64) { c.D, c.WD = v, true }

// SetD and SetC are the exported forms (deviation models).
func (c *VCtx) SetD(v uint64) { c.setD(v) }
func (c *VCtx) SetC(b bool)   { c.setC(b) }
func (c *VCtx) setC(b bool)   { c.C, c.WC = b, true }

func vop(fmtName, name, p, page string, f func(c *VCtx)) *Entry {
	e := &Entry{Name: name, Fmt: fmtName, Class: CVector, Pat: pat(p), V: f, Page: page}
	if fmtName == "VOP3" {
		e.OnlyE64 = true
	}
	reg(e)
	return e
}

func sext24(v uint64) int64 { return int64(int32(uint32(v)<<8) >> 8) }

func med3i(a, b, c int64) int64 {
	mx := a
	if b > mx {
		mx = b
	}
	if c > mx {
		mx = c
	}
	max2 := func(x, y int64) int64 {
		if x > y {
			return x
		}
		return y
	}
	switch mx {
	case a:
		return max2(b, c)
	case b:
		return max2(a, c)
	}
	return max2(a, b)
}

// d16 stores a 16-bit result: the manual defines only D[15:0]; the upper half
// is either cleared or preserved.
func d16(c *VCtx, v uint16) {
	c.setD(uint64(v))
	c.Alt = append(c.Alt[:0], uint64(v)|c.D0&0xffff0000)
}

func class32(b uint32, mask uint32) bool {
	sign := b>>31 != 0
	exp := (b >> 23) & 0xff
	man := b & 0x7fffff
	var bit uint
	switch {
	case exp == 0xff && man != 0:
		if man&0x400000 == 0 {
			bit = 0 // signalling NaN
		} else {
			bit = 1 // quiet NaN
		}
	case exp == 0xff:
		bit = 2 // -inf
		if !sign {
			bit = 9
		}
	case exp == 0 && man == 0:
		bit = 5
		if !sign {
			bit = 6
		}
	case exp == 0:
		bit = 4
		if !sign {
			bit = 7
		}
	default:
		bit = 3
		if !sign {
			bit = 8
		}
	}
	return mask>>bit&1 != 0
}

func init() {
	// ------------------------------------------------------------ VOP2
	// GCN3 manual 13-19..13-21, 12-58..12-82.
	vop("VOP2", "v_cndmask_b32", "D32,S32,S32,I", "12-61", func(c *VCtx) {
		if c.Cin {
			c.setD(uint64(u32(c.S[1])))
		} else {
			c.setD(uint64(u32(c.S[0])))
		}
	})
	vop("VOP2", "v_add_f32", "D32f,S32f,S32f", "12-58", func(c *VCtx) {
		op32(c, []uint32{u32(c.S[0]), u32(c.S[1])}, func(x []uint32) uint32 { return add32(x[0], x[1]) })
	})
	vop("VOP2", "v_sub_f32", "D32f,S32f,S32f", "12-80", func(c *VCtx) {
		op32(c, []uint32{u32(c.S[0]), u32(c.S[1])}, func(x []uint32) uint32 { return sub32(x[0], x[1]) })
	})
	vop("VOP2", "v_subrev_f32", "D32f,S32f,S32f", "12-82", func(c *VCtx) {
		op32(c, []uint32{u32(c.S[0]), u32(c.S[1])}, func(x []uint32) uint32 { return sub32(x[1], x[0]) })
	})
	vop("VOP2", "v_mul_f32", "D32f,S32f,S32f", "12-72", func(c *VCtx) {
		op32(c, []uint32{u32(c.S[0]), u32(c.S[1])}, func(x []uint32) uint32 { return mul32(x[0], x[1]) })
	})
	vop("VOP2", "v_mul_i32_i24", "D32,S32,S32", "12-74", func(c *VCtx) {
		c.setD(uint64(uint32(sext24(c.S[0]) * sext24(c.S[1]))))
	})
	vop("VOP2", "v_mul_hi_i32_i24", "D32,S32,S32", "12-73", func(c *VCtx) {
		c.setD(uint64(uint32((sext24(c.S[0]) * sext24(c.S[1])) >> 32)))
	})
	vop("VOP2", "v_mul_u32_u24", "D32,S32,S32", "12-75", func(c *VCtx) {
		c.setD(uint64(uint32((c.S[0] & 0xffffff) * (c.S[1] & 0xffffff))))
	})
	vop("VOP2", "v_mul_hi_u32_u24", "D32,S32,S32", "12-73", func(c *VCtx) {
		c.setD(((c.S[0] & 0xffffff) * (c.S[1] & 0xffffff)) >> 32)
	})
	vop("VOP2", "v_min_f32", "D32f,S32f,S32f", "12-70", func(c *VCtx) { minmax32(c, u32(c.S[0]), u32(c.S[1]), false) })
	vop("VOP2", "v_max_f32", "D32f,S32f,S32f", "12-66", func(c *VCtx) { minmax32(c, u32(c.S[0]), u32(c.S[1]), true) })
	vop("VOP2", "v_min_i32", "D32,S32,S32", "12-71", func(c *VCtx) {
		if i32(c.S[0]) < i32(c.S[1]) {
			c.setD(uint64(u32(c.S[0])))
		} else {
			c.setD(uint64(u32(c.S[1])))
		}
	})
	vop("VOP2", "v_max_i32", "D32,S32,S32", "12-67", func(c *VCtx) {
		if i32(c.S[0]) > i32(c.S[1]) {
			c.setD(uint64(u32(c.S[0])))
		} else {
			c.setD(uint64(u32(c.S[1])))
		}
	})
	vop("VOP2", "v_min_u32", "D32,S32,S32", "12-71", func(c *VCtx) {
		if u32(c.S[0]) < u32(c.S[1]) {
			c.setD(uint64(u32(c.S[0])))
		} else {
			c.setD(uint64(u32(c.S[1])))
		}
	})
	vop("VOP2", "v_max_u32", "D32,S32,S32", "12-67", func(c *VCtx) {
		if u32(c.S[0]) > u32(c.S[1]) {
			c.setD(uint64(u32(c.S[0])))
		} else {
			c.setD(uint64(u32(c.S[1])))
		}
	})
	vop("VOP2", "v_lshrrev_b32", "D32,S32,S32", "12-64", func(c *VCtx) { c.setD(uint64(u32(c.S[1]) >> (c.S[0] & 31))) })
	vop("VOP2", "v_ashrrev_i32", "D32,S32,S32", "12-60", func(c *VCtx) { c.setD(uint64(uint32(i32(c.S[1]) >> (c.S[0] & 31)))) })
	vop("VOP2", "v_lshlrev_b32", "D32,S32,S32", "12-63", func(c *VCtx) { c.setD(uint64(u32(c.S[1]) << (c.S[0] & 31))) })
	vop("VOP2", "v_and_b32", "D32,S32,S32", "12-60", func(c *VCtx) { c.setD(uint64(u32(c.S[0]) & u32(c.S[1]))) })
	vop("VOP2", "v_or_b32", "D32,S32,S32", "12-76", func(c *VCtx) { c.setD(uint64(u32(c.S[0]) | u32(c.S[1]))) })
	vop("VOP2", "v_xor_b32", "D32,S32,S32", "12-82", func(c *VCtx) { c.setD(uint64(u32(c.S[0]) ^ u32(c.S[1]))) })
	// V_MAC_F32 / V_MAD_F32 / V_MADAK / V_MADMK: multiply then add (two roundings,
	// 12-141 "Gives same result as ADD after MUL_IEEE").
	mad := func(c *VCtx, a, b, d uint32) {
		var r fres
		for fi := 0; fi < 2; fi++ {
			x, y, z := a, b, d
			if fi == 1 {
				x, y, z = flush32(a), flush32(b), flush32(d)
			}
			p := mul32(x, y)
			for _, pm := range []uint32{p, flush32(p)} {
				o := add32(pm, z)
				r.add32(o)
				r.add32(flush32(o))
			}
		}
		r.store(c, 32)
	}
	e := vop("VOP2", "v_mac_f32", "D32f,S32f,S32f", "12-64", func(c *VCtx) { mad(c, u32(c.S[0]), u32(c.S[1]), u32(c.D0)) })
	e.AccD = true
	e = vop("VOP2", "v_madak_f32", "D32,S32,S32,S32", "12-65", func(c *VCtx) { mad(c, u32(c.S[0]), u32(c.S[1]), u32(c.S[2])) })
	e.NoVOP3 = true
	e = vop("VOP2", "v_madmk_f32", "D32,S32,S32,S32", "12-65", func(c *VCtx) { mad(c, u32(c.S[0]), u32(c.S[1]), u32(c.S[2])) })
	e.NoVOP3 = true
	// carry producing / consuming integer adds (GCN3 names; 13-19, 13-36)
	addco := func(c *VCtx, a, b uint64, cin bool) {
		r := uint64(u32(a)) + uint64(u32(b))
		if cin {
			r++
		}
		c.setD(uint64(uint32(r)))
		c.setC(r>>32 != 0)
	}
	subco := func(c *VCtx, a, b uint64, cin bool) { // a - b - cin, borrow out
		k := uint64(0)
		if cin {
			k = 1
		}
		c.setD(uint64(u32(a) - u32(b) - uint32(k)))
		c.setC(uint64(u32(b))+k > uint64(u32(a)))
	}
	g := vop("VOP2", "v_add_u32", "D32,C,S32,S32", "12-59", func(c *VCtx) { addco(c, c.S[0], c.S[1], false) })
	g.Arch = GCN3
	g = vop("VOP2", "v_sub_u32", "D32,C,S32,S32", "12-81", func(c *VCtx) { subco(c, c.S[0], c.S[1], false) })
	g.Arch = GCN3
	g = vop("VOP2", "v_subrev_u32", "D32,C,S32,S32", "12-82", func(c *VCtx) { subco(c, c.S[1], c.S[0], false) })
	g.Arch = GCN3
	g = vop("VOP2", "v_addc_u32", "D32,C,S32,S32,I", "12-59", func(c *VCtx) { addco(c, c.S[0], c.S[1], c.Cin) })
	g.Arch = GCN3
	g = vop("VOP2", "v_subb_u32", "D32,C,S32,S32,I", "12-79", func(c *VCtx) { subco(c, c.S[0], c.S[1], c.Cin) })
	g.Arch = GCN3
	g = vop("VOP2", "v_subbrev_u32", "D32,C,S32,S32,I", "12-79", func(c *VCtx) {
		subco(c, c.S[1], c.S[0], c.Cin)
		// 13-20 prints the V_SUBB formula for the carry of V_SUBBREV: not decided when they differ
		k := uint64(0)
		if c.Cin {
			k = 1
		}
		if (uint64(u32(c.S[1]))+k > uint64(u32(c.S[0]))) != c.C {
			c.AnyC = true
		}
	})
	g.Arch = GCN3
	// GFX9 names of the same operations (cdna3_insts.pdf tables; semantics = the GCN3 operation they rename)
	g = vop("VOP2", "v_add_co_u32", "D32,C,S32,S32", "12-59 (as V_ADD_U32)", func(c *VCtx) { addco(c, c.S[0], c.S[1], false) })
	g.Arch = CDNA3
	g = vop("VOP2", "v_sub_co_u32", "D32,C,S32,S32", "12-81 (as V_SUB_U32)", func(c *VCtx) { subco(c, c.S[0], c.S[1], false) })
	g.Arch = CDNA3
	g = vop("VOP2", "v_subrev_co_u32", "D32,C,S32,S32", "12-82 (as V_SUBREV_U32)", func(c *VCtx) { subco(c, c.S[1], c.S[0], false) })
	g.Arch = CDNA3
	g = vop("VOP2", "v_addc_co_u32", "D32,C,S32,S32,I", "12-59 (as V_ADDC_U32)", func(c *VCtx) { addco(c, c.S[0], c.S[1], c.Cin) })
	g.Arch = CDNA3
	g = vop("VOP2", "v_subb_co_u32", "D32,C,S32,S32,I", "12-79 (as V_SUBB_U32)", func(c *VCtx) { subco(c, c.S[0], c.S[1], c.Cin) })
	g.Arch = CDNA3
	g = vop("VOP2", "v_subbrev_co_u32", "D32,C,S32,S32,I", "12-79 (as V_SUBBREV_U32)", func(c *VCtx) {
		subco(c, c.S[1], c.S[0], c.Cin)
		k := uint64(0)
		if c.Cin {
			k = 1
		}
		if (uint64(u32(c.S[1]))+k > uint64(u32(c.S[0]))) != c.C {
			c.AnyC = true
		}
	})
	g.Arch = CDNA3
	// CDNA3 carry-less forms: D = S0 +/- S1 (opcode names in cdna3_insts.pdf VOP2 table)
	for _, n := range []struct {
		name string
		f    func(a, b uint32) uint32
	}{
		{"v_add_u32", func(a, b uint32) uint32 { return a + b }},
		{"v_sub_u32", func(a, b uint32) uint32 { return a - b }},
		{"v_subrev_u32", func(a, b uint32) uint32 { return b - a }},
	} {
		f := n.f
		x := &Entry{Name: n.name + "@cdna3", Fmt: "VOP2", Class: CVector, Pat: pat("D32,S32,S32"), Arch: CDNA3,
			V:    func(c *VCtx) { c.setD(uint64(f(u32(c.S[0]), u32(c.S[1])))) },
			Page: "cdna3 VOP2 table (name only)", Note: "no-carry form; semantics from the name, the CDNA3 instruction chapter is not in the repository"}
		registry[x.Name] = x
	}
	g = vop("VOP2", "v_fmac_f32", "D32f,S32f,S32f", "cdna3 VOP2 table (name only)", func(c *VCtx) {
		op32(c, []uint32{u32(c.S[0]), u32(c.S[1]), u32(c.D0)}, func(x []uint32) uint32 { return fma32(x[0], x[1], x[2]) })
	})
	g.Arch, g.AccD = CDNA3, true
	// 16 bit
	vop("VOP2", "v_add_u16", "D32,S32,S32", "12-59", func(c *VCtx) { d16(c, uint16(c.S[0])+uint16(c.S[1])) })
	vop("VOP2", "v_sub_u16", "D32,S32,S32", "12-81", func(c *VCtx) { d16(c, uint16(c.S[0])-uint16(c.S[1])) })
	vop("VOP2", "v_subrev_u16", "D32,S32,S32", "12-82", func(c *VCtx) { d16(c, uint16(c.S[1])-uint16(c.S[0])) })
	vop("VOP2", "v_mul_lo_u16", "D32,S32,S32", "12-75", func(c *VCtx) { d16(c, uint16(c.S[0])*uint16(c.S[1])) })
	vop("VOP2", "v_lshlrev_b16", "D32,S32,S32", "12-63", func(c *VCtx) { d16(c, uint16(c.S[1])<<(c.S[0]&15)) })
	vop("VOP2", "v_lshrrev_b16", "D32,S32,S32", "12-64", func(c *VCtx) { d16(c, uint16(c.S[1])>>(c.S[0]&15)) })
	vop("VOP2", "v_ashrrev_i16", "D32,S32,S32", "12-60", func(c *VCtx) { d16(c, uint16(int16(c.S[1])>>(c.S[0]&15))) })
	vop("VOP2", "v_max_u16", "D32,S32,S32", "12-67", func(c *VCtx) {
		a, b := uint16(c.S[0]), uint16(c.S[1])
		if b > a {
			a = b
		}
		d16(c, a)
	})
	vop("VOP2", "v_min_u16", "D32,S32,S32", "12-71", func(c *VCtx) {
		a, b := uint16(c.S[0]), uint16(c.S[1])
		if b < a {
			a = b
		}
		d16(c, a)
	})
	vop("VOP2", "v_max_i16", "D32,S32,S32", "12-67", func(c *VCtx) {
		a, b := int16(c.S[0]), int16(c.S[1])
		if b > a {
			a = b
		}
		d16(c, uint16(a))
	})
	vop("VOP2", "v_min_i16", "D32,S32,S32", "12-70", func(c *VCtx) {
		a, b := int16(c.S[0]), int16(c.S[1])
		if b < a {
			a = b
		}
		d16(c, uint16(a))
	})

	// ------------------------------------------------------------ VOP1
	// GCN3 manual 13-23..13-25, 12-83..12-121.
	vop("VOP1", "v_mov_b32", "D32,S32", "12-112", func(c *VCtx) { c.setD(uint64(u32(c.S[0]))) })
	vop("VOP1", "v_not_b32", "D32,S32", "12-113", func(c *VCtx) { c.setD(uint64(^u32(c.S[0]))) })
	vop("VOP1", "v_bfrev_b32", "D32,S32", "12-83", func(c *VCtx) { c.setD(uint64(bits.Reverse32(u32(c.S[0])))) })
	vop("VOP1", "v_ffbh_u32", "D32,S32", "12-100", func(c *VCtx) {
		if u32(c.S[0]) == 0 {
			c.setD(0xffffffff)
		} else {
			c.setD(uint64(bits.LeadingZeros32(u32(c.S[0]))))
		}
	})
	vop("VOP1", "v_ffbl_b32", "D32,S32", "12-100", func(c *VCtx) {
		if u32(c.S[0]) == 0 {
			c.setD(0xffffffff)
		} else {
			c.setD(uint64(bits.TrailingZeros32(u32(c.S[0]))))
		}
	})
	vop("VOP1", "v_ffbh_i32", "D32,S32", "12-100", func(c *VCtx) {
		v := u32(c.S[0])
		if v == 0 || v == 0xffffffff {
			c.setD(0xffffffff)
			return
		}
		if int32(v) < 0 {
			v = ^v
		}
		c.setD(uint64(bits.LeadingZeros32(v)))
	})
	vop("VOP1", "v_cvt_f32_i32", "D32f,S32", "12-88", func(c *VCtx) {
		var r fres
		o := b32f(float32(i32(c.S[0])))
		r.add32(o)
		r.store(c, 32)
	})
	vop("VOP1", "v_cvt_f32_u32", "D32f,S32", "12-88", func(c *VCtx) {
		var r fres
		r.add32(b32f(float32(u32(c.S[0]))))
		r.store(c, 32)
	})
	vop("VOP1", "v_cvt_f64_i32", "D64f,S32", "12-91", func(c *VCtx) { c.setD(b64f(float64(i32(c.S[0])))) })
	vop("VOP1", "v_cvt_f64_u32", "D64f,S32", "12-92", func(c *VCtx) { c.setD(b64f(float64(u32(c.S[0])))) })
	vop("VOP1", "v_cvt_i32_f32", "D32,S32f", "12-94", func(c *VCtx) {
		v := cvtToI32(float64(f32(u32(c.S[0]))))
		c.setD(v[0])
		c.Alt = append(c.Alt[:0], v[1:]...)
	})
	vop("VOP1", "v_cvt_u32_f32", "D32,S32f", "12-97", func(c *VCtx) { c.setD(cvtToU32(float64(f32(u32(c.S[0]))))[0]) })
	vop("VOP1", "v_cvt_i32_f64", "D32,S64f", "12-93", func(c *VCtx) {
		v := cvtToI32(f64(c.S[0]))
		c.setD(v[0])
		c.Alt = append(c.Alt[:0], v[1:]...)
	})
	vop("VOP1", "v_cvt_u32_f64", "D32,S64f", "12-97", func(c *VCtx) { c.setD(cvtToU32(f64(c.S[0]))[0]) })
	vop("VOP1", "v_cvt_f32_f64", "D32f,S64f", "12-87", func(c *VCtx) {
		var r fres
		for _, in := range []uint64{c.S[0], flush64(c.S[0])} {
			o := b32f(float32(f64(in)))
			r.add32(o)
			r.add32(flush32(o))
		}
		r.store(c, 32)
	})
	vop("VOP1", "v_cvt_f64_f32", "D64f,S32f", "12-91", func(c *VCtx) {
		var r fres
		for _, in := range []uint32{u32(c.S[0]), flush32(u32(c.S[0]))} {
			r.add64(b64f(float64(f32(in))))
		}
		r.store(c, 64)
	})
	for i := 0; i < 4; i++ {
		sh := uint(8 * i)
		vop("VOP1", "v_cvt_f32_ubyte"+string(rune('0'+i)), "D32f,S32", "12-89", func(c *VCtx) {
			c.setD(uint64(b32f(float32((c.S[0] >> sh) & 0xff))))
		})
	}
	round32 := func(name, page string, f func(float64) float64) {
		vop("VOP1", name, "D32f,S32f", page, func(c *VCtx) {
			op32(c, []uint32{u32(c.S[0])}, func(x []uint32) uint32 { return b32f(float32(f(float64(f32(x[0]))))) })
		})
	}
	round32("v_trunc_f32", "12-121", math.Trunc)
	round32("v_ceil_f32", "12-84", math.Ceil)
	round32("v_floor_f32", "12-101", math.Floor)
	round32("v_rndne_f32", "12-114", math.RoundToEven)
	round64 := func(name, page string, f func(float64) float64) {
		vop("VOP1", name, "D64f,S64f", page, func(c *VCtx) {
			op64(c, []uint64{c.S[0]}, func(x []uint64) uint64 { return b64f(f(f64(x[0]))) })
		})
	}
	round64("v_trunc_f64", "12-121", math.Trunc)
	round64("v_ceil_f64", "12-84", math.Ceil)
	round64("v_floor_f64", "12-101", math.Floor)
	round64("v_rndne_f64", "12-114", math.RoundToEven)
	vop("VOP1", "v_fract_f32", "D32f,S32f", "12-103", func(c *VCtx) {
		// D.f = S0.f - floor(S0.f). For tiny negative inputs the subtraction rounds to 1.0;
		// hardware clamps below 1.0: both accepted. Infinite input: inf - inf (NaN) or 0.
		op32(c, []uint32{u32(c.S[0])}, func(x []uint32) uint32 {
			v := f32(x[0])
			return b32f(v - float32(math.Floor(float64(v))))
		})
		all := append([]uint64{c.D}, c.Alt...)
		for _, v := range all {
			if v == 0x3f800000 {
				c.Alt = append(c.Alt, 0x3f7fffff)
			}
			if v&0x7fffffff == 0 {
				c.Alt = append(c.Alt, v^0x80000000) // a zero result of either sign
			}
		}
		if math.IsInf(float64(f32(u32(c.S[0]))), 0) {
			c.Alt = append(c.Alt, 0, 0x80000000)
		}
	})

	// ------------------------------------------------------------ VOP3 only
	// GCN3 manual 13-30..13-34, 12-122..
	vop("VOP3", "v_mad_f32", "D32f,S32f,S32f,S32f", "12-141", func(c *VCtx) { mad(c, u32(c.S[0]), u32(c.S[1]), u32(c.S[2])) })
	vop("VOP3", "v_mad_i32_i24", "D32,S32,S32,S32", "12-142", func(c *VCtx) {
		c.setD(uint64(uint32(sext24(c.S[0])*sext24(c.S[1]) + int64(i32(c.S[2])))))
	})
	vop("VOP3", "v_mad_u32_u24", "D32,S32,S32,S32", "12-143", func(c *VCtx) {
		c.setD(uint64(uint32((c.S[0]&0xffffff)*(c.S[1]&0xffffff) + uint64(u32(c.S[2])))))
	})
	vop("VOP3", "v_bfe_u32", "D32,S32,S32,S32", "12-127", func(c *VCtx) {
		off, w := uint(c.S[1]&31), uint(c.S[2]&31)
		c.setD(uint64((u32(c.S[0]) >> off) & uint32(maskN(w))))
	})
	vop("VOP3", "v_bfe_i32", "D32,S32,S32,S32", "12-127", func(c *VCtx) {
		off, w := uint(c.S[1]&31), uint(c.S[2]&31)
		switch {
		case w == 0:
			c.setD(0)
		case off+w < 32:
			c.setD(uint64(uint32(int32(u32(c.S[0])<<(32-off-w)) >> (32 - w))))
		default:
			c.setD(uint64(uint32(i32(c.S[0]) >> off)))
		}
	})
	vop("VOP3", "v_bfi_b32", "D32,S32,S32,S32", "12-128", func(c *VCtx) {
		c.setD(uint64(u32(c.S[0])&u32(c.S[1]) | ^u32(c.S[0])&u32(c.S[2])))
	})
	vop("VOP3", "v_fma_f32", "D32f,S32f,S32f,S32f", "12-137", func(c *VCtx) {
		op32(c, []uint32{u32(c.S[0]), u32(c.S[1]), u32(c.S[2])}, func(x []uint32) uint32 { return fma32(x[0], x[1], x[2]) })
	})
	vop("VOP3", "v_fma_f64", "D64f,S64f,S64f,S64f", "12-137", func(c *VCtx) {
		op64(c, []uint64{c.S[0], c.S[1], c.S[2]}, func(x []uint64) uint64 { return fma64(x[0], x[1], x[2]) })
	})
	vop("VOP3", "v_alignbit_b32", "D32,S32,S32,S32", "12-123", func(c *VCtx) {
		c.setD(uint64(uint32((uint64(u32(c.S[0]))<<32 | uint64(u32(c.S[1]))) >> (c.S[2] & 31))))
	})
	vop("VOP3", "v_alignbyte_b32", "D32,S32,S32,S32", "12-123", func(c *VCtx) {
		// 13-31: ({S0,S1} >> (8*S2.u[4:0])); 12-123 may restrict to [1:0]: only shifts < 64 are decided
		sh := 8 * (c.S[2] & 31)
		if sh >= 64 {
			c.AnyD = true
			c.setD(0)
			return
		}
		c.setD(uint64(uint32((uint64(u32(c.S[0]))<<32 | uint64(u32(c.S[1]))) >> sh)))
		if c.S[2]&31 > 3 {
			c.AnyD = true
		}
	})
	min3 := func(name, page string, less func(a, b uint64) bool, isMax bool) {
		vop("VOP3", name, "D32,S32,S32,S32", page, func(c *VCtx) {
			m := c.S[0]
			for _, v := range c.S[1:3] {
				if (!isMax && less(v, m)) || (isMax && less(m, v)) {
					m = v
				}
			}
			c.setD(uint64(u32(m)))
		})
	}
	lessI := func(a, b uint64) bool { return i32(a) < i32(b) }
	lessU := func(a, b uint64) bool { return u32(a) < u32(b) }
	min3("v_min3_i32", "12-148", lessI, false)
	min3("v_min3_u32", "12-148", lessU, false)
	min3("v_max3_i32", "12-145", lessI, true)
	min3("v_max3_u32", "12-145", lessU, true)
	vop("VOP3", "v_med3_i32", "D32,S32,S32,S32", "12-146", func(c *VCtx) {
		c.setD(uint64(uint32(med3i(int64(i32(c.S[0])), int64(i32(c.S[1])), int64(i32(c.S[2]))))))
	})
	vop("VOP3", "v_med3_u32", "D32,S32,S32,S32", "12-147", func(c *VCtx) {
		c.setD(uint64(uint32(med3i(int64(u32(c.S[0])), int64(u32(c.S[1])), int64(u32(c.S[2]))))))
	})
	// float min3/max3/med3: "DX10 NaN handling": a NaN operand is ignored when
	// another operand is a number. Zeros of different sign are not ordered.
	fsel3 := func(c *VCtx, kind int) {
		var r fres
		for fi := 0; fi < 2; fi++ {
			var v []uint32
			nan := 0
			for i := 0; i < 3; i++ {
				x := u32(c.S[i])
				if fi == 1 {
					x = flush32(x)
				}
				if isNaN32(x) {
					nan++
					continue
				}
				v = append(v, x)
			}
			if len(v) == 0 {
				r.nan = true
				continue
			}
			for i := 0; i < 3; i++ {
				if isSNaN32(u32(c.S[i])) {
					r.nan = true // IEEE mode returns a quieted signalling NaN (as V_MIN_F32 12-70)
				}
			}
			// sort numbers
			for i := range v {
				for j := i + 1; j < len(v); j++ {
					if f32(v[j]) < f32(v[i]) {
						v[i], v[j] = v[j], v[i]
					}
				}
			}
			var pick []uint32
			switch kind {
			case 0: // min
				pick = append(pick, v[0])
			case 1: // max
				pick = append(pick, v[len(v)-1])
			case 2: // med: with a NaN present 12-146 says MIN3
				if nan > 0 {
					pick = append(pick, v[0])
				} else {
					pick = append(pick, v[1])
				}
			}
			// values comparing equal to the pick are equally acceptable (+0/-0)
			for _, x := range v {
				if f32(x) == f32(pick[0]) {
					pick = append(pick, x)
				}
			}
			for _, o := range pick {
				r.addv(uint64(o))
				r.addv(uint64(flush32(o)))
			}
		}
		r.store(c, 32)
	}
	vop("VOP3", "v_min3_f32", "D32f,S32f,S32f,S32f", "12-148", func(c *VCtx) { fsel3(c, 0) })
	vop("VOP3", "v_max3_f32", "D32f,S32f,S32f,S32f", "12-145", func(c *VCtx) { fsel3(c, 1) })
	vop("VOP3", "v_med3_f32", "D32f,S32f,S32f,S32f", "12-146", func(c *VCtx) { fsel3(c, 2) })
	vop("VOP3", "v_add_f64", "D64f,S64f,S64f", "12-122", func(c *VCtx) {
		op64(c, []uint64{c.S[0], c.S[1]}, func(x []uint64) uint64 { return b64f(f64(x[0]) + f64(x[1])) })
	})
	vop("VOP3", "v_mul_f64", "D64f,S64f,S64f", "12-150", func(c *VCtx) {
		op64(c, []uint64{c.S[0], c.S[1]}, func(x []uint64) uint64 { return b64f(f64(x[0]) * f64(x[1])) })
	})
	vop("VOP3", "v_min_f64", "D64f,S64f,S64f", "12-147", func(c *VCtx) { minmax64(c, c.S[0], c.S[1], false) })
	vop("VOP3", "v_max_f64", "D64f,S64f,S64f", "12-144", func(c *VCtx) { minmax64(c, c.S[0], c.S[1], true) })
	vop("VOP3", "v_mul_lo_u32", "D32,S32,S32", "12-152", func(c *VCtx) { c.setD(uint64(u32(c.S[0]) * u32(c.S[1]))) })
	vop("VOP3", "v_mul_hi_u32", "D32,S32,S32", "12-151", func(c *VCtx) {
		c.setD((uint64(u32(c.S[0])) * uint64(u32(c.S[1]))) >> 32)
	})
	vop("VOP3", "v_mul_hi_i32", "D32,S32,S32", "12-151", func(c *VCtx) {
		c.setD(uint64(uint32((int64(i32(c.S[0])) * int64(i32(c.S[1]))) >> 32)))
	})
	vop("VOP3", "v_lshlrev_b64", "D64,S32,S64", "12-139", func(c *VCtx) { c.setD(c.S[1] << (c.S[0] & 63)) })
	vop("VOP3", "v_lshrrev_b64", "D64,S32,S64", "12-140", func(c *VCtx) { c.setD(c.S[1] >> (c.S[0] & 63)) })
	vop("VOP3", "v_ashrrev_i64", "D64,S32,S64", "12-125", func(c *VCtx) { c.setD(uint64(int64(c.S[1]) >> (c.S[0] & 63))) })
	vop("VOP3", "v_bfm_b32", "D32,S32,S32", "12-128", func(c *VCtx) {
		c.setD(uint64(uint32(((uint64(1) << (c.S[0] & 31)) - 1) << (c.S[1] & 31))))
	})
	vop("VOP3", "v_bcnt_u32_b32", "D32,S32,S32", "12-126", func(c *VCtx) {
		c.setD(uint64(uint32(bits.OnesCount32(u32(c.S[0]))) + u32(c.S[1])))
	})
	vop("VOP3", "v_mbcnt_lo_u32_b32", "D32,S32,S32", "12-149", func(c *VCtx) {
		m := uint32(maskN(uint(c.Lane)))
		c.setD(uint64(uint32(bits.OnesCount32(u32(c.S[0])&m)) + u32(c.S[1])))
	})
	vop("VOP3", "v_mbcnt_hi_u32_b32", "D32,S32,S32", "12-149", func(c *VCtx) {
		m := uint32(maskN(uint(c.Lane)) >> 32)
		c.setD(uint64(uint32(bits.OnesCount32(u32(c.S[0])&m)) + u32(c.S[1])))
	})
	// {vcc_out, D.u64} = S0.u32 * S1.u32 + S2.u64 (12-143). The manual files it
	// under VOP3a although it has a carry-out; llvm encodes VOP3b with SDST.
	vop("VOP3", "v_mad_u64_u32", "D64,C,S32,S32,S64", "12-143", func(c *VCtx) {
		p := uint64(u32(c.S[0])) * uint64(u32(c.S[1]))
		r := p + c.S[2]
		c.setD(r)
		c.setC(r < p)
		c.AnyC = true // encoding of vcc_out is not given by the manual's VOP3a layout
	})
	vop("VOP3", "v_mad_i64_i32", "D64,C,S32,S32,S64", "12-142", func(c *VCtx) {
		p := int64(i32(c.S[0])) * int64(i32(c.S[1]))
		r := uint64(p) + c.S[2]
		c.setD(r)
		c.setC(false)
		c.AnyC = true
	})
	// CDNA3-only three operand integer ops (names in cdna3_insts.pdf VOP3 table)
	cd := func(name string, p string, f func(c *VCtx)) {
		x := vop("VOP3", name, p, "cdna3 VOP3A table (name only)", f)
		x.Arch = CDNA3
		x.Note = "semantics from the opcode name; the CDNA3 instruction chapter is not in the repository"
	}
	cd("v_add3_u32", "D32,S32,S32,S32", func(c *VCtx) { c.setD(uint64(u32(c.S[0]) + u32(c.S[1]) + u32(c.S[2]))) })
	cd("v_lshl_add_u32", "D32,S32,S32,S32", func(c *VCtx) { c.setD(uint64(u32(c.S[0])<<(c.S[1]&31) + u32(c.S[2]))) })
	cd("v_add_lshl_u32", "D32,S32,S32,S32", func(c *VCtx) { c.setD(uint64((u32(c.S[0]) + u32(c.S[1])) << (c.S[2] & 31))) })
	cd("v_lshl_or_b32", "D32,S32,S32,S32", func(c *VCtx) { c.setD(uint64(u32(c.S[0])<<(c.S[1]&31) | u32(c.S[2]))) })
	cd("v_and_or_b32", "D32,S32,S32,S32", func(c *VCtx) { c.setD(uint64(u32(c.S[0])&u32(c.S[1]) | u32(c.S[2]))) })
	cd("v_or3_b32", "D32,S32,S32,S32", func(c *VCtx) { c.setD(uint64(u32(c.S[0]) | u32(c.S[1]) | u32(c.S[2]))) })
	cd("v_xad_u32", "D32,S32,S32,S32", func(c *VCtx) { c.setD(uint64((u32(c.S[0]) ^ u32(c.S[1])) + u32(c.S[2]))) })
	cd("v_lshl_add_u64", "D64,S64,S32,S64", func(c *VCtx) {
		// shift amounts above 4 are reserved on CDNA3
		if c.S[1]&63 > 4 {
			c.AnyD = true
		}
		c.setD(c.S[0]<<(c.S[1]&7) + c.S[2])
	})

	// ------------------------------------------------------------ VOPC
	// GCN3 manual 13-26..13-29: D.u64[lane] = compare(S0, S1).
	type cmpOp struct {
		n string
		f func(lt, eq, gt, un bool) bool
	}
	ops16 := []cmpOp{
		{"f", func(lt, eq, gt, un bool) bool { return false }},
		{"lt", func(lt, eq, gt, un bool) bool { return lt }},
		{"eq", func(lt, eq, gt, un bool) bool { return eq }},
		{"le", func(lt, eq, gt, un bool) bool { return lt || eq }},
		{"gt", func(lt, eq, gt, un bool) bool { return gt }},
		{"lg", func(lt, eq, gt, un bool) bool { return lt || gt }},
		{"ge", func(lt, eq, gt, un bool) bool { return gt || eq }},
		{"o", func(lt, eq, gt, un bool) bool { return !un }},
		{"u", func(lt, eq, gt, un bool) bool { return un }},
		{"nge", func(lt, eq, gt, un bool) bool { return !(gt || eq) }},
		{"nlg", func(lt, eq, gt, un bool) bool { return !(lt || gt) }},
		{"ngt", func(lt, eq, gt, un bool) bool { return !gt }},
		{"nle", func(lt, eq, gt, un bool) bool { return !(lt || eq) }},
		{"neq", func(lt, eq, gt, un bool) bool { return !eq }},
		{"nlt", func(lt, eq, gt, un bool) bool { return !lt }},
		{"tru", func(lt, eq, gt, un bool) bool { return true }},
	}
	ops8 := []cmpOp{ops16[0], ops16[1], ops16[2], ops16[3], ops16[4], {"ne", ops16[5].f}, ops16[6], {"t", ops16[15].f}}
	for _, x := range []string{"cmp", "cmpx"} {
		isX := x == "cmpx"
		for _, o := range ops16 {
			f := o.f
			e := vop("VOPC", "v_"+x+"_"+o.n+"_f32", "C,S32f,S32f", "12-154..", func(c *VCtx) {
				// comparisons of denormals are the same flushed or not, except against zero:
				a, b := u32(c.S[0]), u32(c.S[1])
				res := func(a, b uint32) bool {
					un := isNaN32(a) || isNaN32(b)
					fa, fb := f32(a), f32(b)
					return f(!un && fa < fb, !un && fa == fb, !un && fa > fb, un)
				}
				r1, r2 := res(a, b), res(flush32(a), flush32(b))
				c.setC(r1)
				if r1 != r2 {
					c.AnyC = true
				}
			})
			e.Cmpx = isX
			e = vop("VOPC", "v_"+x+"_"+o.n+"_f64", "C,S64f,S64f", "12-154..", func(c *VCtx) {
				a, b := c.S[0], c.S[1]
				res := func(a, b uint64) bool {
					un := isNaN64(a) || isNaN64(b)
					fa, fb := f64(a), f64(b)
					return f(!un && fa < fb, !un && fa == fb, !un && fa > fb, un)
				}
				r1, r2 := res(a, b), res(flush64(a), flush64(b))
				c.setC(r1)
				if r1 != r2 {
					c.AnyC = true
				}
			})
			e.Cmpx = isX
		}
		for _, o := range ops8 {
			f := o.f
			for _, ty := range []struct {
				n    string
				bits int
				cmp  func(a, b uint64) (lt, eq bool)
			}{
				{"i16", 32, func(a, b uint64) (bool, bool) { return int16(a) < int16(b), int16(a) == int16(b) }},
				{"u16", 32, func(a, b uint64) (bool, bool) { return uint16(a) < uint16(b), uint16(a) == uint16(b) }},
				{"i32", 32, func(a, b uint64) (bool, bool) { return i32(a) < i32(b), i32(a) == i32(b) }},
				{"u32", 32, func(a, b uint64) (bool, bool) { return u32(a) < u32(b), u32(a) == u32(b) }},
				{"i64", 64, func(a, b uint64) (bool, bool) { return int64(a) < int64(b), a == b }},
				{"u64", 64, func(a, b uint64) (bool, bool) { return a < b, a == b }},
			} {
				cmp := ty.cmp
				p := "C,S32,S32"
				if ty.bits == 64 {
					p = "C,S64,S64"
				}
				e := vop("VOPC", "v_"+x+"_"+o.n+"_"+ty.n, p, "12-154..", func(c *VCtx) {
					lt, eq := cmp(c.S[0], c.S[1])
					c.setC(f(lt, eq, !lt && !eq, false))
				})
				e.Cmpx = isX
			}
		}
		e := vop("VOPC", "v_"+x+"_class_f32", "C,S32f,S32", "12-153", func(c *VCtx) {
			c.setC(class32(u32(c.S[0]), u32(c.S[1])))
			if isDen32(u32(c.S[0])) {
				c.AnyC = true
			}
		})
		e.Cmpx = isX
	}

	// v_readfirstlane_b32 (12-113)
	reg(&Entry{Name: "v_readfirstlane_b32", Fmt: "VOP1", Class: CReadFirstLane, Pat: pat("D32,S32"), Page: "12-113"})
}

func containsU64(l []uint64, v uint64) bool {
	for _, x := range l {
		if x == v {
			return true
		}
	}
	return false
}
