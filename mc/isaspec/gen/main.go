// gen builds the committed encoding tables isaspec/testdata/{gfx803,gfx90a}.tbl:
// for every opcode in the specification registry it writes assembly text for
// each operand-kind variant, assembles it with llvm-mc-14 (an encoder that is
// independent of the repository) and stores "hex <TAB> group <TAB> canonical text".
// Authoring-time only: the check never runs llvm-mc.
//
//	cd /verif/mc && go run ./isaspec/gen
package main

import (
	"bufio"
	"bytes"
	"fmt"
	"os"
	"os/exec"
	"regexp"
	"sort"
	"strconv"
	"strings"

	"verif/mc/isaspec"
)

type cand struct {
	text, group string
}

var out []cand

func add(group, format string, a ...any) { out = append(out, cand{fmt.Sprintf(format, a...), group}) }

var s32kinds = []string{"vcc_lo", "vcc_hi", "exec_lo", "exec_hi", "m0", "src_scc", "src_vccz", "src_execz",
	"0", "1", "64", "-1", "-16", "0.5", "-4.0", "0.15915494", "0x80000000", "0x12345678", "0x7fffffff", "0xffff8000", "65"}
var s64kinds = []string{"vcc", "exec", "0", "1", "64", "-1", "-16"}
var d32kinds = []string{"vcc_lo", "vcc_hi", "exec_lo", "exec_hi", "m0"}
var d64kinds = []string{"vcc", "exec"}

func sreg(idx, bits int) string {
	if bits == 64 {
		return fmt.Sprintf("s[%d:%d]", idx, idx+1)
	}
	return fmt.Sprintf("s%d", idx)
}
func vreg(idx, bits int) string {
	if bits > 32 {
		return fmt.Sprintf("v[%d:%d]", idx, idx+bits/32-1)
	}
	return fmt.Sprintf("v%d", idx)
}

func join(name string, ops []string, mods string) string {
	s := name
	if len(ops) > 0 {
		s += " " + strings.Join(ops, ", ")
	}
	if mods != "" {
		s += " " + mods
	}
	return s
}

func genScalar(e *isaspec.Entry) {
	base := make([]string, len(e.Pat))
	si := 0
	for i, r := range e.Pat {
		switch r.R {
		case 'D':
			base[i] = sreg(10, r.Bits)
		case 'S':
			base[i] = sreg(20+10*si, r.Bits)
			si++
		case 'K':
			base[i] = "0"
		}
	}
	with := func(i int, v string) []string {
		o := append([]string{}, base...)
		o[i] = v
		return o
	}
	switch e.Fmt {
	case "SOPK":
		for _, k := range isaspec.Imm16 {
			add("imm", "%s", join(e.Name, with(1, fmt.Sprintf("0x%x", k)), ""))
		}
		for _, d := range d32kinds {
			add("dst="+d, "%s", join(e.Name, []string{d, "0x1234"}, ""))
		}
		return
	case "SOPP":
		if e.Name == "s_waitcnt" {
			add("base", "s_waitcnt vmcnt(0) lgkmcnt(0)")
			add("base", "s_waitcnt 0")
			return
		}
		if e.Name == "s_nop" {
			add("imm", "s_nop 0")
			add("imm", "s_nop 7")
			return
		}
		for _, k := range []int{0, 1, 65535, 32767, 32768, 4, 65532, 100} {
			add("imm", "%s %d", e.Name, k)
		}
		return
	}
	add("base", "%s", join(e.Name, base, ""))
	si = 0
	nS := 0
	for _, r := range e.Pat {
		if r.R == 'S' {
			nS++
		}
	}
	saveexec := strings.Contains(e.Name, "saveexec")
	for i, r := range e.Pat {
		switch r.R {
		case 'S':
			kinds := s32kinds
			if r.Bits == 64 {
				kinds = s64kinds
			}
			for _, k := range kinds {
				add(fmt.Sprintf("src%d=%s", si, kindName(k)), "%s", join(e.Name, with(i, k), ""))
			}
			si++
		case 'D':
			kinds := d32kinds
			if r.Bits == 64 {
				kinds = d64kinds
			}
			for _, k := range kinds {
				if saveexec && k == "exec" {
					continue
				}
				add("dst="+k, "%s", join(e.Name, with(i, k), ""))
			}
		}
	}
	// aliasing (s_*_saveexec_b64 too: operands are read before anything is written, so with dst = src0 the new
	// EXEC is op(old src0, old EXEC) and the destination receives the old EXEC - seed C03-7)
	if saveexec {
		o := append([]string{}, base...)
		o[0] = o[1]
		add("alias:dst=src0", "%s", join(e.Name, o, ""))
		o = append([]string{}, base...)
		o[0], o[1] = "vcc", "vcc"
		add("alias:dst=src0=vcc", "%s", join(e.Name, o, ""))
	}
	if !saveexec && len(e.Pat) >= 2 && e.Pat[0].R == 'D' {
		for i := 1; i < len(e.Pat); i++ {
			if e.Pat[i].R == 'S' && e.Pat[i].Bits == e.Pat[0].Bits {
				o := append([]string{}, base...)
				o[0] = o[i]
				add(fmt.Sprintf("alias:dst=src%d", i-1), "%s", join(e.Name, o, ""))
			}
		}
		// 64-bit destination overlapping a 32-bit source register
		if e.Pat[0].Bits == 64 && len(e.Pat) == 3 && e.Pat[2].Bits == 32 {
			o := append([]string{}, base...)
			o[0], o[1], o[2] = "s[20:21]", "s[20:21]", "s21"
			add("alias:overlap", "%s", join(e.Name, o, ""))
		}
	}
	// a 32-bit destination that is one half of a 64-bit source pair; a 64-bit
	// destination pair that contains a 32-bit source (either half)
	if !saveexec && len(e.Pat) >= 2 && e.Pat[0].R == 'D' {
		for i := 1; i < len(e.Pat); i++ {
			if e.Pat[i].R != 'S' {
				continue
			}
			r := 20 + 10*(i-1)
			switch {
			case e.Pat[0].Bits == 32 && e.Pat[i].Bits == 64:
				for _, h := range []int{0, 1} {
					o := append([]string{}, base...)
					o[0] = sreg(r+h, 32)
					add(fmt.Sprintf("alias:overlap:dst~src%d", i-1), "%s", join(e.Name, o, ""))
				}
			case e.Pat[0].Bits == 64 && e.Pat[i].Bits == 32:
				for _, h := range []int{0, 1} {
					o := append([]string{}, base...)
					o[0], o[i] = sreg(r, 64), sreg(r+h, 32)
					add(fmt.Sprintf("alias:overlap:dst~src%d", i-1), "%s", join(e.Name, o, ""))
				}
			}
		}
	}
	if nS == 2 && e.Pat[len(e.Pat)-1].Bits == e.Pat[len(e.Pat)-2].Bits {
		o := append([]string{}, base...)
		o[len(o)-1] = o[len(o)-2]
		add("alias:src0=src1", "%s", join(e.Name, o, ""))
	}
}

func kindName(k string) string {
	switch {
	case strings.HasPrefix(k, "0x"):
		return "literal"
	case strings.Contains(k, "."):
		return "inlinefloat"
	case k[0] == '-' || (k[0] >= '0' && k[0] <= '9'):
		return "inlineint"
	case k[0] == 's' && len(k) > 1 && (k[1] == '[' || (k[1] >= '0' && k[1] <= '9')):
		return "sgpr"
	case k[0] == 'v' && len(k) > 1 && (k[1] == '[' || (k[1] >= '0' && k[1] <= '9')):
		return "vgpr"
	}
	return k
}

func genVector(e *isaspec.Entry) {
	name := strings.TrimSuffix(e.Name, "@cdna3")
	encs := []string{"e32", "e64"}
	if e.OnlyE64 {
		encs = []string{""}
	}
	if e.NoVOP3 {
		encs = []string{"noenc"}
	}
	if name == "v_and_b32" || name == "v_or_b32" || name == "v_xor_b32" {
		sels := []string{"BYTE_0", "BYTE_1", "BYTE_2", "BYTE_3", "WORD_0", "WORD_1", "DWORD"}
		for _, ds := range sels {
			for _, du := range []string{"UNUSED_PAD", "UNUSED_SEXT", "UNUSED_PRESERVE"} {
				add("sdwa:dst", "%s_sdwa v10, v20, v30 dst_sel:%s dst_unused:%s src0_sel:DWORD src1_sel:DWORD", name, ds, du)
			}
		}
		for _, s0 := range sels {
			for _, s1 := range sels {
				add("sdwa:src", "%s_sdwa v10, v20, v30 dst_sel:DWORD dst_unused:UNUSED_PAD src0_sel:%s src1_sel:%s", name, s0, s1)
			}
		}
		add("sdwa:mix", "%s_sdwa v10, v20, v30 dst_sel:BYTE_1 dst_unused:UNUSED_PRESERVE src0_sel:BYTE_3 src1_sel:WORD_1", name)
		add("sdwa:alias", "%s_sdwa v20, v20, v30 dst_sel:WORD_1 dst_unused:UNUSED_PRESERVE src0_sel:WORD_0 src1_sel:WORD_0", name)
	}
	for _, enc := range encs {
		mn := name
		if enc == "e32" || enc == "e64" {
			mn = name + "_" + enc
		}
		vop3 := enc == "e64" || enc == ""
		base := make([]string, len(e.Pat))
		si := 0
		var srcIdx []int
		for i, r := range e.Pat {
			switch r.R {
			case 'D':
				base[i] = vreg(10, r.Bits)
			case 'C':
				if vop3 {
					base[i] = "s[10:11]"
				} else {
					base[i] = "vcc"
				}
			case 'I':
				if vop3 {
					base[i] = "s[12:13]"
				} else {
					base[i] = "vcc"
				}
			case 'S':
				base[i] = vreg(20+10*si, r.Bits)
				srcIdx = append(srcIdx, i)
				si++
			}
		}
		if e.NoVOP3 { // madak / madmk: literal K is one of the sources in text order
			ki := 3
			if strings.Contains(name, "mk") {
				ki = 2
			}
			for _, k := range []string{"0x3f800000", "0x80000000", "0x7fc00000", "0x1", "0x42280000"} {
				o := append([]string{}, base...)
				o[ki] = k
				add("K="+k, "%s", join(mn, o, ""))
				for _, s0 := range []string{"s20", "1.0", "-1", "vcc_lo"} {
					o2 := append([]string{}, o...)
					o2[1] = s0
					add("K="+k+",src0="+kindName(s0), "%s", join(mn, o2, ""))
				}
			}
			continue
		}
		with := func(i int, v string) []string {
			o := append([]string{}, base...)
			o[i] = v
			return o
		}
		g := "base"
		if enc != "" {
			g = enc + ":base"
		}
		add(g, "%s", join(mn, base, ""))
		pre := ""
		if enc != "" {
			pre = enc + ":"
		}
		for k, i := range srcIdx {
			r := e.Pat[i]
			var kinds []string
			if r.Bits == 64 {
				kinds = []string{"s[20:21]", "vcc", "exec", "0", "1", "-1", "64", "-16"}
				if r.Float {
					kinds = append(kinds, "0.5", "-4.0", "1.0")
				}
			} else {
				kinds = []string{"s20", "vcc_lo", "vcc_hi", "exec_lo", "exec_hi", "m0", "0", "1", "-1", "64", "-16", "src_scc"}
				if r.Float {
					kinds = append(kinds, "0.5", "-4.0", "0.15915494", "1.0")
				} else {
					kinds = append(kinds, "0.5")
				}
				if !vop3 {
					kinds = append(kinds, "0x12345678", "0x80000000", "0x7f800001", "0xffffff")
				}
			}
			if !vop3 && k > 0 {
				continue // VSRC1 is a VGPR in the 32-bit encodings
			}
			for _, kd := range kinds {
				add(fmt.Sprintf("%ssrc%d=%s", pre, k, kindName(kd)), "%s", join(mn, with(i, kd), ""))
			}
			if vop3 && r.Float {
				for _, m := range []string{"-%s", "|%s|", "-|%s|"} {
					add(fmt.Sprintf("%ssrc%d:mod", pre, k), "%s", join(mn, with(i, fmt.Sprintf(m, base[i])), ""))
				}
			}
		}
		if vop3 && e.Pat[0].R == 'D' && e.Pat[0].Float {
			for _, m := range []string{"clamp", "mul:2", "mul:4", "div:2", "clamp mul:2"} {
				add(pre+"omod", "%s", join(mn, base, m))
			}
		}
		if vop3 {
			for i, r := range e.Pat {
				if r.R == 'C' {
					add(pre+"sdst=vcc", "%s", join(mn, with(i, "vcc"), ""))
					if !e.Cmpx {
						add(pre+"sdst=exec", "%s", join(mn, with(i, "exec"), ""))
					}
				}
				if r.R == 'I' {
					add(pre+"mask=vcc", "%s", join(mn, with(i, "vcc"), ""))
					add(pre+"mask=exec", "%s", join(mn, with(i, "exec"), ""))
				}
			}
		}
		// aliasing: destination is also a source
		if e.Pat[0].R == 'D' {
			for k, i := range srcIdx {
				if e.Pat[i].Bits == e.Pat[0].Bits {
					o := append([]string{}, base...)
					o[0] = o[i]
					add(fmt.Sprintf("%salias:dst=src%d", pre, k), "%s", join(mn, o, ""))
				}
			}
		}
		genVectorOverlap(e, mn, pre, base, srcIdx, vop3)
	}
}

// genVectorOverlap adds the operand-aliasing forms beyond "dst = src of the same
// width": every one is legal (all sources are read before any result is
// written); what llvm-mc refuses for a target (gfx90a wants even-aligned VGPR
// tuples) lands in testdata/*.rejected.
//
//   - a VGPR destination that partially overlaps a VGPR source: 64-bit pairs
//     shifted by one register, a 32-bit destination that is one half of a
//     64-bit source, a 64-bit destination that contains a 32-bit source;
//   - VOP3b / VOP3 compares: the lane-mask destination (carry-out, compare
//     result) is the SGPR pair, or VCC, that also holds a uniform scalar source
//     (low half, high half, the whole pair for 64-bit sources);
//   - the carry chain: carry-in and carry-out in the same pair.
func genVectorOverlap(e *isaspec.Entry, mn, pre string, base []string, srcIdx []int, vop3 bool) {
	with2 := func(i int, v string, j int, w string) []string {
		o := append([]string{}, base...)
		o[i], o[j] = v, w
		return o
	}
	if e.Pat[0].R == 'D' {
		db := e.Pat[0].Bits
		for k, i := range srcIdx {
			sb := e.Pat[i].Bits
			r := 20 + 10*k // register of source k in the base form
			g := fmt.Sprintf("%salias:overlap:dst~src%d", pre, k)
			switch {
			case db == 64 && sb == 64:
				add(g, "%s", join(mn, with2(0, vreg(r+1, 64), i, base[i]), ""))
				add(g, "%s", join(mn, with2(0, vreg(r-1, 64), i, base[i]), ""))
			case db == 32 && sb == 64:
				add(g, "%s", join(mn, with2(0, vreg(r, 32), i, base[i]), ""))
				add(g, "%s", join(mn, with2(0, vreg(r+1, 32), i, base[i]), ""))
			case db == 64 && sb == 32:
				add(g, "%s", join(mn, with2(0, vreg(r, 64), i, vreg(r, 32)), ""))
				add(g, "%s", join(mn, with2(0, vreg(r, 64), i, vreg(r+1, 32)), ""))
				add(g, "%s", join(mn, with2(0, vreg(r-1, 64), i, vreg(r, 32)), ""))
			}
		}
	}
	if !vop3 {
		return
	}
	ci, ii := -1, -1
	for i, r := range e.Pat {
		switch r.R {
		case 'C':
			ci = i
		case 'I':
			ii = i
		}
	}
	if ci < 0 {
		return
	}
	for k, i := range srcIdx {
		g := fmt.Sprintf("%salias:sdst~src%d", pre, k)
		if e.Pat[i].Bits == 64 {
			add(g, "%s", join(mn, with2(ci, "s[20:21]", i, "s[20:21]"), ""))
			add(g, "%s", join(mn, with2(ci, "vcc", i, "vcc"), ""))
			continue
		}
		add(g, "%s", join(mn, with2(ci, "s[20:21]", i, "s20"), ""))
		add(g, "%s", join(mn, with2(ci, "s[20:21]", i, "s21"), ""))
		add(g, "%s", join(mn, with2(ci, "vcc", i, "vcc_lo"), ""))
		add(g, "%s", join(mn, with2(ci, "vcc", i, "vcc_hi"), ""))
	}
	if len(srcIdx) >= 2 && e.Pat[srcIdx[0]].Bits == 32 && e.Pat[srcIdx[1]].Bits == 32 {
		o := with2(ci, "s[20:21]", srcIdx[0], "s20")
		o[srcIdx[1]] = "s20"
		add(pre+"alias:sdst~src0=src1", "%s", join(mn, o, ""))
		// lane-mask destination overlaps the scalar source AND the VGPR destination is the VGPR source
		if e.Pat[0].R == 'D' && e.Pat[0].Bits == 32 {
			o := with2(ci, "s[20:21]", srcIdx[0], "s21")
			o[0] = o[srcIdx[1]]
			add(pre+"alias:sdst~src0,dst=src1", "%s", join(mn, o, ""))
		}
	}
	if ii >= 0 {
		add(pre+"alias:sdst=mask", "%s", join(mn, with2(ci, "s[12:13]", ii, "s[12:13]"), ""))
		add(pre+"alias:sdst=mask", "%s", join(mn, with2(ci, "vcc", ii, "vcc"), ""))
	}
}

func genMem(e *isaspec.Entry) {
	n := e.Name
	m := e.M
	switch m.Kind {
	case "sload":
		dw := m.Bytes / 4
		d := "s10"
		if dw > 1 {
			d = fmt.Sprintf("s[%d:%d]", 32, 32+dw-1)
		}
		for _, off := range []string{"0x0", "0x4", "0x10", "0x7fc", "0xffc"} {
			add("imm", "%s %s, s[2:3], %s", n, d, off)
		}
		add("soffset", "%s %s, s[2:3], s20", n, d)
		add("soffset=m0", "%s %s, s[2:3], m0", n, d)
		if dw == 2 {
			add("dst=vcc", "%s vcc, s[2:3], 0x0", n)
			add("alias:dst=base", "%s s[2:3], s[2:3], 0x0", n)
		}
		if dw == 1 {
			add("dst=vcc_lo", "%s vcc_lo, s[2:3], 0x0", n)
			add("dst=m0", "%s m0, s[2:3], 0x0", n)
			add("alias:dst~base", "%s s2, s[2:3], 0x0", n)
			add("alias:dst~base", "%s s3, s[2:3], 0x4", n)
			add("alias:dst=soffset", "%s s20, s[2:3], s20", n)
		}
		if dw >= 4 {
			// the loaded tuple contains the base pair (tuples of 4 and more are 4-aligned)
			add("alias:dst~base", "%s s[0:%d], s[2:3], 0x0", n, dw-1)
			add("alias:dst~base", "%s s[0:%d], s[2:3], 0x10", n, dw-1)
		}
		add("glc", "%s %s, s[2:3], 0x0 glc", n, d)
	case "dsread":
		d := vreg(10, m.Bytes*8)
		if m.Bytes < 4 {
			d = "v10"
		}
		for _, off := range []string{"", "offset:4", "offset:256", "offset:65532", "offset:1", "offset:65535"} {
			add("offset", "%s %s, v20 %s", n, d, off)
		}
		add("alias:dst=addr", "%s %s, v10", n, d)
		if m.Bytes >= 8 {
			add("alias:dst~addr", "%s %s, v11 offset:4", n, d)
			add("alias:dst~addr", "%s %s, v%d", n, d, 10+m.Bytes/4-1)
		}
	case "dsread2":
		d := vreg(10, m.Bytes*16)
		for _, off := range []string{"offset1:1", "offset0:1", "offset0:255 offset1:254", "offset0:3 offset1:3", "offset0:16 offset1:32"} {
			add("offset", "%s %s, v20 %s", n, d, off)
		}
		add("alias:dst~addr", "%s %s, v10 offset1:1", n, d)
		add("alias:dst~addr", "%s %s, v%d offset0:3 offset1:2", n, d, 10+m.Bytes/2-1)
	case "dswrite":
		s := vreg(30, m.Bytes*8)
		if m.Bytes < 4 {
			s = "v30"
		}
		for _, off := range []string{"", "offset:4", "offset:256", "offset:65532", "offset:1", "offset:65535"} {
			add("offset", "%s v20, %s %s", n, s, off)
		}
		add("alias:data=addr", "%s v20, %s", n, vreg(20, max(32, m.Bytes*8)))
	case "dswrite2":
		for _, off := range []string{"offset1:1", "offset0:1", "offset0:255 offset1:254", "offset0:3 offset1:3", "offset0:16 offset1:32"} {
			add("offset", "%s v20, %s, %s %s", n, vreg(30, m.Bytes*8), vreg(40, m.Bytes*8), off)
		}
	case "flatload", "flatstore":
		data := vreg(30, max(32, m.Bytes*8))
		global := strings.HasPrefix(n, "global_")
		ops := func(addr, tail string) string {
			if m.Kind == "flatload" {
				d := vreg(10, max(32, m.Bytes*8))
				return fmt.Sprintf("%s %s, %s%s", n, d, addr, tail)
			}
			return fmt.Sprintf("%s %s, %s%s", n, addr, data, tail)
		}
		if !global {
			add("base", "%s", ops("v[20:21]", ""))
			add("glc", "%s", ops("v[20:21]", " glc"))
			add("slc", "%s", ops("v[20:21]", " glc slc"))
			for _, o := range []string{"offset:4", "offset:16", "offset:4095"} {
				add("offset", "%s", ops("v[20:21]", " "+o))
			}
			if m.Kind == "flatload" {
				add("alias:dst=addr", "%s %s, v[10:11]", n, vreg(10, max(32, m.Bytes*8)))
				genLoadOverlap(n, max(4, m.Bytes)/4, "v[10:11]", "")
			}
		} else {
			if m.Kind == "flatload" {
				dw := max(4, m.Bytes) / 4
				add("alias:dst=addr", "%s %s, v[10:11], off", n, vreg(10, 32*dw))
				genLoadOverlap(n, dw, "v[10:11]", ", off")
				genLoadOverlap(n, dw, "v[10:11]", ", off offset:-4")
				// destination = / contains the 32-bit VGPR offset
				add("alias:dst~voffset", "%s %s, v10, s[4:5]", n, vreg(10, 32*dw))
				add("alias:dst~voffset", "%s %s, v10, s[4:5] offset:16", n, vreg(10, 32*dw))
				if dw > 1 {
					add("alias:dst~voffset", "%s %s, v%d, s[4:5] offset:-4", n, vreg(10, 32*dw), 10+dw-1)
				}
			}
			for _, o := range []string{"", " offset:4", " offset:-4", " offset:4095", " offset:-4096", " offset:2047", " offset:-2048", " offset:16"} {
				add("off", "%s", ops("v[20:21]", ", off"+o))
			}
			for _, o := range []string{"", " offset:16", " offset:-16", " offset:4", " offset:-4", " offset:-8", " offset:2047", " offset:4095", " offset:-2048", " offset:-4096"} {
				add("saddr", "%s", ops("v20", ", s[4:5]"+o))
			}
			add("saddr:sgpr-hi", "%s", ops("v20", ", s[100:101] offset:-4"))
			add("saddr=s[0:1]", "%s", ops("v20", ", s[0:1]"))
		}
	}
}

// genLoadOverlap: the destination of a load with the 64-bit address pair
// v[10:11] is the pair's high register, a pair shifted by one register, or a
// wider tuple that contains the pair (dst = v10.. itself is "alias:dst=addr").
func genLoadOverlap(n string, dw int, addr, tail string) {
	g := "alias:dst~addr"
	seen := map[int]bool{10: true}
	for _, first := range []int{11, 9, 10 - dw + 2, 10 - dw + 1} {
		if seen[first] || first+dw-1 < 10 || first > 11 {
			continue
		}
		seen[first] = true
		add(g, "%s %s, %s%s", n, vreg(first, 32*dw), addr, tail)
	}
}

func max(a, b int) int {
	if a > b {
		return a
	}
	return b
}

var encRe = regexp.MustCompile(`^\s*(.*?)\s*; encoding: \[(.*)\]`)
var errRe = regexp.MustCompile(`^[^:]+:(\d+):\d+: error`)

func assemble(cpu string, cands []cand) (ok []string, rejected []cand) {
	var src bytes.Buffer
	for _, c := range cands {
		src.WriteString(c.text + "\n")
	}
	os.WriteFile("/tmp/c03gen.s", src.Bytes(), 0o644)
	cmd := exec.Command("llvm-mc-14", "-arch=amdgcn", "-mcpu="+cpu, "-show-encoding", "/tmp/c03gen.s")
	var so, se bytes.Buffer
	cmd.Stdout, cmd.Stderr = &so, &se
	cmd.Run()
	os.Remove("/tmp/c03gen.s")
	bad := map[int]bool{}
	sc := bufio.NewScanner(&se)
	sc.Buffer(make([]byte, 1<<20), 1<<20)
	for sc.Scan() {
		if m := errRe.FindStringSubmatch(sc.Text()); m != nil {
			n, _ := strconv.Atoi(m[1])
			bad[n] = true
		}
	}
	var encs []string
	sc = bufio.NewScanner(&so)
	sc.Buffer(make([]byte, 1<<20), 1<<20)
	for sc.Scan() {
		if m := encRe.FindStringSubmatch(sc.Text()); m != nil {
			hexs := ""
			for _, b := range strings.Split(m[2], ",") {
				hexs += strings.TrimPrefix(strings.TrimSpace(b), "0x")
			}
			encs = append(encs, hexs+"\t"+strings.Join(strings.Fields(m[1]), " "))
		}
	}
	k := 0
	for i, c := range cands {
		if bad[i+1] {
			rejected = append(rejected, c)
			continue
		}
		if k >= len(encs) {
			fmt.Fprintln(os.Stderr, "llvm-mc output shorter than input at", c.text)
			os.Exit(2)
		}
		parts := strings.SplitN(encs[k], "\t", 2)
		ok = append(ok, parts[0]+"\t"+c.group+"\t"+parts[1])
		k++
	}
	if k != len(encs) {
		fmt.Fprintf(os.Stderr, "llvm-mc produced %d encodings for %d accepted lines\n", len(encs), k)
		os.Exit(2)
	}
	return
}

// handEncoded are the few CDNA3-only forms that LLVM 14 cannot assemble
// (gfx940 is not available): V_LSHL_ADD_U64 is VOP3A opcode 520 (0x208); the
// words are laid out by hand from the VOP3A field table (cdna3_insts.pdf 13.3.4:
// VDST[7:0] ABS[10:8] CLAMP[15] OP[25:16] 110100[31:26]; SRC0[40:32] SRC1[49:41]
// SRC2[58:50] OMOD[60:59] NEG[63:61]) and cross-checked against llvm-mc's
// encoding of v_lshl_add_u32 (opcode 0x1fd) with the same operands.
func handEncoded() []string {
	enc := func(op, vdst, s0, s1, s2 int) string {
		w0 := uint32(0xd0000000) | uint32(op)<<16 | uint32(vdst)
		w1 := uint32(s0) | uint32(s1)<<9 | uint32(s2)<<18
		b := []byte{byte(w0), byte(w0 >> 8), byte(w0 >> 16), byte(w0 >> 24), byte(w1), byte(w1 >> 8), byte(w1 >> 16), byte(w1 >> 24)}
		return fmt.Sprintf("%x", b)
	}
	v := func(n int) int { return 256 + n }
	var out []string
	add := func(group, text string, s0, s1, s2 int) {
		out = append(out, enc(0x208, 10, s0, s1, s2)+"\t"+group+"\t"+text)
	}
	add("hand:base", "v_lshl_add_u64 v[10:11], v[20:21], v30, v[40:41]", v(20), v(30), v(40))
	for k, c := range []int{128, 129, 130, 131, 132} {
		add("hand:src1=inlineint", fmt.Sprintf("v_lshl_add_u64 v[10:11], v[20:21], %d, v[40:41]", k), v(20), c, v(40))
	}
	add("hand:src2=sgpr", "v_lshl_add_u64 v[10:11], v[20:21], v30, s[20:21]", v(20), v(30), 20)
	add("hand:src0=sgpr", "v_lshl_add_u64 v[10:11], s[20:21], v30, v[40:41]", 20, v(30), v(40))
	add("hand:alias:dst=src0", "v_lshl_add_u64 v[20:21], v[20:21], v30, v[40:41]", v(20), v(30), v(40))
	// the last line needs vdst=20
	out[len(out)-1] = strings.Replace(out[len(out)-1], "0a00", "1400", 1)
	return out
}

func main() {
	dir := "isaspec/testdata"
	if len(os.Args) > 1 {
		dir = os.Args[1]
	}
	for _, tgt := range []struct {
		arch isaspec.Arch
		cpu  string
	}{{isaspec.GCN3, "gfx803"}, {isaspec.CDNA3, "gfx90a"}} {
		out = nil
		for _, e := range isaspec.Entries() {
			if e.Arch&tgt.arch == 0 {
				continue
			}
			if strings.HasSuffix(e.Name, "@cdna3") && tgt.arch != isaspec.CDNA3 {
				continue
			}
			if tgt.arch == isaspec.CDNA3 && isaspec.LookupArch(strings.TrimSuffix(e.Name, "@cdna3"), isaspec.CDNA3) != e {
				continue // shadowed by the @cdna3 entry
			}
			switch e.Class {
			case isaspec.CScalar:
				genScalar(e)
			case isaspec.CVector:
				genVector(e)
			case isaspec.CReadFirstLane:
				add("base", "v_readfirstlane_b32 s10, v20")
				add("dst=vcc_lo", "v_readfirstlane_b32 vcc_lo, v20")
				add("dst=m0", "v_readfirstlane_b32 m0, v20")
			default:
				genMem(e)
			}
		}
		// de-duplicate candidates
		seen := map[string]bool{}
		var cands []cand
		for _, c := range out {
			if !seen[c.text] {
				seen[c.text] = true
				cands = append(cands, c)
			}
		}
		ok, rej := assemble(tgt.cpu, cands)
		// canonical text must be parseable by the specification's parser and unique
		seenEnc := map[string]bool{}
		var lines []string
		for _, l := range ok {
			parts := strings.SplitN(l, "\t", 3)
			if seenEnc[parts[0]+parts[2]] {
				continue
			}
			seenEnc[parts[0]+parts[2]] = true
			if _, err := isaspec.Parse(parts[2]); err != nil {
				fmt.Fprintln(os.Stderr, "unparseable canonical text:", parts[2], err)
				continue
			}
			lines = append(lines, l)
		}
		if tgt.arch == isaspec.CDNA3 {
			lines = append(lines, handEncoded()...)
		}
		hdr := fmt.Sprintf("# %s encodings by llvm-mc-14 -arch=amdgcn -mcpu=%s -show-encoding; generated by isaspec/gen; %d forms\n", tgt.arch, tgt.cpu, len(lines))
		os.WriteFile(fmt.Sprintf("%s/%s.tbl", dir, tgt.cpu), []byte(hdr+strings.Join(lines, "\n")+"\n"), 0o644)
		var rl []string
		for _, c := range rej {
			rl = append(rl, c.group+"\t"+c.text)
		}
		sort.Strings(rl)
		os.WriteFile(fmt.Sprintf("%s/%s.rejected", dir, tgt.cpu), []byte(strings.Join(rl, "\n")+"\n"), 0o644)
		fmt.Printf("%s: %d candidates, %d assembled, %d rejected by llvm-mc\n", tgt.cpu, len(cands), len(lines), len(rej))
	}
}
