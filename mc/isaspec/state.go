package isaspec

import (
	"bytes"
	"fmt"
	"unsafe"
)

// NumSGPR and NumVGPR are the sizes of the modelled register files (the
// sizes of emu.Wavefront's files).
const (
	NumSGPR  = 102
	NumVGPR  = 256
	NumLanes = 64
	PageSize = 4096
)

// Memory is byte-addressed virtual memory, a set of 4 KiB pages.
type Memory struct {
	Pages map[uint64][]byte // key = virtual page number
}

// Clone copies the memory.
func (m *Memory) Clone() *Memory {
	if m == nil {
		return nil
	}
	n := &Memory{Pages: make(map[uint64][]byte, len(m.Pages))}
	for k, p := range m.Pages {
		n.Pages[k] = append([]byte(nil), p...)
	}
	return n
}

// Read reads n bytes at va; ok is false when any byte is unmapped.
func (m *Memory) Read(va uint64, n int) ([]byte, bool) {
	out := make([]byte, n)
	for i := 0; i < n; i++ {
		a := va + uint64(i)
		p, ok := m.Pages[a/PageSize]
		if !ok {
			return nil, false
		}
		out[i] = p[a%PageSize]
	}
	return out, true
}

// Write writes data at va.
func (m *Memory) Write(va uint64, data []byte) bool {
	for i := range data {
		a := va + uint64(i)
		p, ok := m.Pages[a/PageSize]
		if !ok {
			return false
		}
		p[a%PageSize] = data[i]
	}
	return true
}

// State is the architectural state an instruction reads and writes.
type State struct {
	S    [NumSGPR]uint32
	V    []uint32 // index lane*NumVGPR+reg
	SCC  uint8
	VCC  uint64
	EXEC uint64
	M0   uint32
	PC   uint64 // address of the instruction about to execute / next to execute
	LDS  []byte
	Mem  *Memory
	// Quirk selects recorded deviations of the register file model (used only
	// to label known findings, never as the oracle). Not part of the state.
	Quirk int
}

// Register-file deviations that can be switched on in a deviation model.
const (
	// QVCCHiWrite: a 32-bit write to vcc_hi clears vcc_lo and ORs the value
	// into the old vcc_hi (emu.Wavefront.WriteReg masks with the wrong constant).
	QVCCHiWrite = 1 << iota
	// QVCCHiRead: reading vcc_hi as a 32-bit operand whose decoded RegCount is 0
	// returns the whole 64-bit VCC (so the low half is what a 32-bit handler sees).
	QVCCHiRead
	// QVCCLoRead64: reading vcc_lo as a 32-bit operand whose decoded RegCount is 0
	// returns the whole 64-bit VCC.
	QVCCLoRead64
	// QIntConst64: a negative inline integer constant read as a 32-bit operand
	// is returned sign-extended to 64 bits (handlers that do not truncate see it).
	QIntConst64
	// QFloatConst32: an inline float constant read as a 64-bit operand yields the
	// single precision bit pattern (emu.Wavefront.ReadOperand ignores the width).
	QFloatConst32
	// QRaw is what a handler gets from emu.Wavefront.ReadOperand for 32-bit operands.
	QRaw = QVCCHiRead | QVCCLoRead64 | QIntConst64
)

// NewState makes a state filled with unique background values.
func NewState(ldsSize int) *State {
	st := &State{V: make([]uint32, NumLanes*NumVGPR), LDS: make([]byte, ldsSize)}
	for i := range st.S {
		st.S[i] = 0xA5000000 | uint32(i)<<16 | uint32(i*37+11)&0xffff
	}
	for l := 0; l < NumLanes; l++ {
		for r := 0; r < NumVGPR; r++ {
			st.V[l*NumVGPR+r] = 0xC0000000 | uint32(r)<<16 | uint32(l)<<8 | uint32((r*7+l*13)&0xff)
		}
	}
	for i := range st.LDS {
		st.LDS[i] = byte(0x80 | (i*5+i/256)&0x7f)
	}
	st.EXEC = ^uint64(0)
	st.VCC = 0x0123456789abcdef
	st.M0 = 0x4d300d17
	st.PC = 0x1000
	return st
}

// CopyFrom makes st a deep copy of o reusing st's buffers.
func (st *State) CopyFrom(o *State) {
	st.S = o.S
	if len(st.V) != len(o.V) {
		st.V = make([]uint32, len(o.V))
	}
	copy(st.V, o.V)
	st.SCC, st.VCC, st.EXEC, st.M0, st.PC = o.SCC, o.VCC, o.EXEC, o.M0, o.PC
	if len(st.LDS) != len(o.LDS) {
		st.LDS = make([]byte, len(o.LDS))
	}
	copy(st.LDS, o.LDS)
	if o.Mem == nil {
		st.Mem = nil
		return
	}
	if st.Mem == nil || len(st.Mem.Pages) != len(o.Mem.Pages) {
		st.Mem = o.Mem.Clone()
		return
	}
	for k, p := range o.Mem.Pages {
		q, ok := st.Mem.Pages[k]
		if !ok {
			st.Mem = o.Mem.Clone()
			return
		}
		copy(q, p)
	}
}

// Clone returns a deep copy.
func (st *State) Clone() *State {
	n := &State{}
	n.CopyFrom(st)
	return n
}

// Vreg / SetVreg access one lane of a VGPR.
func (st *State) Vreg(lane, reg int) uint32       { return st.V[lane*NumVGPR+reg] }
func (st *State) SetVreg(lane, reg int, v uint32) { st.V[lane*NumVGPR+reg] = v }

// Diff returns a list of component names that differ between st and o
// ("" list means equal). detail describes the first few differences.
func (st *State) Diff(o *State) (comps []string, detail string) {
	var b bytes.Buffer
	add := func(c string, f string, a ...any) {
		for _, x := range comps {
			if x == c {
				if b.Len() < 1200 {
					fmt.Fprintf(&b, f, a...)
				}
				return
			}
		}
		comps = append(comps, c)
		if b.Len() < 1200 {
			fmt.Fprintf(&b, f, a...)
		}
	}
	for i := range st.S {
		if st.S[i] != o.S[i] {
			add(fmt.Sprintf("s%d", i), "s%d: %#x vs %#x; ", i, st.S[i], o.S[i])
		}
	}
	if st.SCC != o.SCC {
		add("scc", "scc: %d vs %d; ", st.SCC, o.SCC)
	}
	if st.VCC != o.VCC {
		add("vcc", "vcc: %#x vs %#x; ", st.VCC, o.VCC)
	}
	if st.EXEC != o.EXEC {
		add("exec", "exec: %#x vs %#x; ", st.EXEC, o.EXEC)
	}
	if st.M0 != o.M0 {
		add("m0", "m0: %#x vs %#x; ", st.M0, o.M0)
	}
	if st.PC != o.PC {
		add("pc", "pc: %#x vs %#x; ", st.PC, o.PC)
	}
	for i := range st.V {
		if &st.V[0] == &o.V[0] {
			break
		}
		if st.V[i] != o.V[i] {
			add(fmt.Sprintf("v%d", i%NumVGPR), "v%d[lane %d]: %#x vs %#x; ", i%NumVGPR, i/NumVGPR, st.V[i], o.V[i])
		}
	}
	if len(st.LDS) > 0 && &st.LDS[0] != &o.LDS[0] && !bytes.Equal(st.LDS, o.LDS) {
		for i := range st.LDS {
			if st.LDS[i] != o.LDS[i] {
				add("lds", "lds[%#x]: %#x vs %#x; ", i, st.LDS[i], o.LDS[i])
			}
		}
	}
	if st.Mem != nil && o.Mem != nil {
		for k, p := range st.Mem.Pages {
			q := o.Mem.Pages[k]
			if !bytes.Equal(p, q) {
				for i := range p {
					if q == nil || p[i] != q[i] {
						var qv byte
						if q != nil {
							qv = q[i]
						}
						add("mem", "mem[%#x]: %#x vs %#x; ", k*PageSize+uint64(i), p[i], qv)
					}
				}
			}
		}
	}
	return comps, b.String()
}

// Equal reports deep equality (fast path for the common case).
func (st *State) Equal(o *State) bool {
	if st.S != o.S || st.SCC != o.SCC || st.VCC != o.VCC || st.EXEC != o.EXEC || st.M0 != o.M0 || st.PC != o.PC {
		return false
	}
	if len(st.V) != len(o.V) {
		return false
	}
	if len(st.V) > 0 && &st.V[0] != &o.V[0] {
		a := unsafe.Slice((*byte)(unsafe.Pointer(&st.V[0])), len(st.V)*4)
		b := unsafe.Slice((*byte)(unsafe.Pointer(&o.V[0])), len(o.V)*4)
		if !bytes.Equal(a, b) {
			return false
		}
	}
	if len(st.LDS) != len(o.LDS) || (len(st.LDS) > 0 && &st.LDS[0] != &o.LDS[0] && !bytes.Equal(st.LDS, o.LDS)) {
		return false
	}
	if st.Mem != nil {
		for k, p := range st.Mem.Pages {
			if !bytes.Equal(p, o.Mem.Pages[k]) {
				return false
			}
		}
	}
	return true
}

// ---------------------------------------------------------------------------
// Operand access (ISA manual table 6.1 / SSRC enumerations in chapter 13).

// ReadScalar reads a uniform (non-VGPR) operand with the given width.
func (st *State) ReadScalar(o Operand, bits int) uint64 {
	switch o.Kind {
	case KSGPR:
		if bits == 64 {
			return uint64(st.S[o.Idx]) | uint64(st.S[o.Idx+1])<<32
		}
		return uint64(st.S[o.Idx])
	case KVCC:
		if bits == 32 && st.Quirk&QVCCLoRead64 == 0 {
			return uint64(uint32(st.VCC)) // only reachable with a deviation model's narrower operand pattern
		}
		return st.VCC
	case KVCCLo:
		if bits == 64 || st.Quirk&QVCCLoRead64 != 0 {
			return st.VCC
		}
		return uint64(uint32(st.VCC))
	case KVCCHi:
		if st.Quirk&QVCCHiRead != 0 {
			return st.VCC
		}
		return st.VCC >> 32
	case KEXEC:
		if bits == 32 {
			return uint64(uint32(st.EXEC))
		}
		return st.EXEC
	case KEXECLo:
		if bits == 64 {
			return st.EXEC
		}
		return uint64(uint32(st.EXEC))
	case KEXECHi:
		return st.EXEC >> 32
	case KM0:
		return uint64(st.M0)
	case KSCC:
		return uint64(st.SCC)
	case KVCCZ:
		if st.VCC == 0 {
			return 1
		}
		return 0
	case KEXECZ:
		if st.EXEC == 0 {
			return 1
		}
		return 0
	case KInt, KLit, KFloat:
		if o.Kind == KInt && st.Quirk&QIntConst64 != 0 {
			return uint64(o.Int)
		}
		if o.Kind == KFloat && bits == 64 && st.Quirk&QFloatConst32 != 0 {
			return ConstValue(o, 32)
		}
		return ConstValue(o, bits)
	}
	panic("ReadScalar: " + o.Text)
}

// WriteScalar writes a uniform destination operand of the given width.
func (st *State) WriteScalar(o Operand, bits int, v uint64) {
	switch o.Kind {
	case KSGPR:
		st.S[o.Idx] = uint32(v)
		if bits == 64 {
			st.S[o.Idx+1] = uint32(v >> 32)
		}
	case KVCC:
		st.VCC = v
	case KVCCLo:
		if bits == 64 {
			st.VCC = v
		} else {
			st.VCC = st.VCC&^0xffffffff | uint64(uint32(v))
		}
	case KVCCHi:
		if st.Quirk&QVCCHiWrite != 0 {
			st.VCC = st.VCC&0xffffffff00000000 | uint64(uint32(v))<<32
			return
		}
		st.VCC = st.VCC&0xffffffff | uint64(uint32(v))<<32
	case KEXEC:
		st.EXEC = v
	case KEXECLo:
		if bits == 64 {
			st.EXEC = v
		} else {
			st.EXEC = st.EXEC&^0xffffffff | uint64(uint32(v))
		}
	case KEXECHi:
		st.EXEC = st.EXEC&0xffffffff | uint64(uint32(v))<<32
	case KM0:
		st.M0 = uint32(v)
	default:
		panic("WriteScalar: " + o.Text)
	}
}

// ReadLane reads a vector-instruction source operand for one lane.
func (st *State) ReadLane(o Operand, bits, lane int) uint64 {
	if o.Kind == KVGPR {
		v := uint64(st.Vreg(lane, o.Idx))
		if bits == 64 {
			v |= uint64(st.Vreg(lane, o.Idx+1)) << 32
		}
		return v
	}
	return st.ReadScalar(o, bits)
}

// WriteLane writes a VGPR destination for one lane.
func (st *State) WriteLane(o Operand, bits, lane int, v uint64) {
	if o.Kind != KVGPR {
		panic("WriteLane: " + o.Text)
	}
	st.SetVreg(lane, o.Idx, uint32(v))
	if bits >= 64 {
		st.SetVreg(lane, o.Idx+1, uint32(v>>32))
	}
}
