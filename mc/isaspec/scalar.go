package isaspec

import "math/bits"

// SCtx is the view a scalar opcode's semantics has of the machine. Inputs
// are filled by the executor from the operands named in the assembly text.
type SCtx struct {
	S0, S1 uint64 // source operands (width per pattern)
	D0     uint64 // old value of the destination (SOPK compares, bitset, ...)
	SCC    uint8
	EXEC   uint64
	VCC    uint64
	PC     uint64 // byte address of this instruction
	Imm    uint16 // SIMM16

	// outputs
	D      uint64
	WD     bool
	AnyD   bool // manual does not determine the destination for this input
	SCCo   uint8
	WSCC   bool
	AnySCC bool // manual ambiguous: either unchanged or SCCo
	EXECo  uint64
	WEXEC  bool
	PCo    uint64
	WPC    bool
}

func (c *SCtx) setD(v uint64) { c.D, c.WD = v, true }

// SetD, SetSCC, SetEXEC and Jump are the exported forms (deviation models).
func (c *SCtx) SetD(v uint64)    { c.setD(v) }
func (c *SCtx) SetSCC(b bool)    { c.setSCC(b) }
func (c *SCtx) SetEXEC(v uint64) { c.setEXEC(v) }
func (c *SCtx) Jump(pc uint64)   { c.jump(pc) }
func (c *SCtx) setSCC(b bool) {
	c.WSCC = true
	c.SCCo = 0
	if b {
		c.SCCo = 1
	}
}
func (c *SCtx) setEXEC(v uint64) { c.EXECo, c.WEXEC = v, true }
func (c *SCtx) jump(pc uint64)   { c.PCo, c.WPC = pc, true }

func i32(v uint64) int32    { return int32(uint32(v)) }
func u32(v uint64) uint32   { return uint32(v) }
func simm(imm uint16) int32 { return int32(int16(imm)) }

func maskN(n uint) uint64 {
	if n >= 64 {
		return ^uint64(0)
	}
	return (uint64(1) << n) - 1
}

func sop2(name string, op int, p string, page string, f func(c *SCtx)) *Entry {
	e := &Entry{Name: name, Fmt: "SOP2", Class: CScalar, Pat: pat(p), S: f, Page: page}
	reg(e)
	return e
}
func sop1(name string, p string, page string, f func(c *SCtx)) *Entry {
	e := &Entry{Name: name, Fmt: "SOP1", Class: CScalar, Pat: pat(p), S: f, Page: page}
	reg(e)
	return e
}
func sopc(name string, p string, page string, f func(c *SCtx)) *Entry {
	e := &Entry{Name: name, Fmt: "SOPC", Class: CScalar, Pat: pat(p), S: f, Page: page}
	reg(e)
	return e
}
func sopk(name string, page string, f func(c *SCtx)) *Entry {
	e := &Entry{Name: name, Fmt: "SOPK", Class: CScalar, Pat: pat("D32,K16"), S: f, Page: page}
	reg(e)
	return e
}
func sopp(name string, p string, page string, f func(c *SCtx)) *Entry {
	e := &Entry{Name: name, Fmt: "SOPP", Class: CScalar, Pat: pat(p), S: f, Page: page}
	reg(e)
	return e
}

const b32 = "D32,S32,S32"
const b64 = "D64,S64,S64"

func wqm(v uint64, n int) uint64 {
	var out uint64
	for q := 0; q < n; q += 4 {
		if (v>>uint(q))&0xf != 0 {
			out |= 0xf << uint(q)
		}
	}
	return out
}

func quadmask(v uint64, n int) uint64 {
	var out uint64
	for q := 0; q < n/4; q++ {
		if (v>>uint(4*q))&0xf != 0 {
			out |= 1 << uint(q)
		}
	}
	return out
}

func init() {
	// ---------------------------------------------------------------- SOP2
	// GCN3 manual 13-4/13-5 (opcode table) and 12-1..12-11 (descriptions).
	sop2("s_add_u32", 0, b32, "12-1", func(c *SCtx) {
		r := uint64(u32(c.S0)) + uint64(u32(c.S1))
		c.setD(uint64(uint32(r)))
		c.setSCC(r>>32 != 0) // unsigned carry out
	})
	sop2("s_sub_u32", 1, b32, "12-11", func(c *SCtx) {
		c.setD(uint64(u32(c.S0) - u32(c.S1)))
		c.setSCC(u32(c.S1) > u32(c.S0)) // unsigned carry (borrow) out, cf. V_SUB_U32 13-19
	})
	sop2("s_add_i32", 2, b32, "12-1", func(c *SCtx) {
		r := int64(i32(c.S0)) + int64(i32(c.S1))
		c.setD(uint64(uint32(r)))
		c.setSCC(r != int64(int32(r))) // signed overflow
	})
	sop2("s_sub_i32", 3, b32, "12-11", func(c *SCtx) {
		r := int64(i32(c.S0)) - int64(i32(c.S1))
		c.setD(uint64(uint32(r)))
		c.setSCC(r != int64(int32(r)))
	})
	sop2("s_addc_u32", 4, b32, "12-2", func(c *SCtx) {
		r := uint64(u32(c.S0)) + uint64(u32(c.S1)) + uint64(c.SCC)
		c.setD(uint64(uint32(r)))
		c.setSCC(r>>32 != 0)
	})
	sop2("s_subb_u32", 5, b32, "12-11", func(c *SCtx) {
		c.setD(uint64(u32(c.S0) - u32(c.S1) - uint32(c.SCC)))
		c.setSCC(uint64(u32(c.S1))+uint64(c.SCC) > uint64(u32(c.S0)))
	})
	minmax := func(name string, op int, page string, s0wins func(a, b uint64) bool) {
		sop2(name, op, b32, page, func(c *SCtx) {
			if s0wins(c.S0, c.S1) {
				c.setD(uint64(u32(c.S0)))
				c.setSCC(true)
			} else {
				c.setD(uint64(u32(c.S1)))
				c.setSCC(false)
				if u32(c.S0) == u32(c.S1) {
					c.AnySCC = true // "SCC = 1 if S0 is min": equal operands are not decided by the text
				}
			}
		})
	}
	minmax("s_min_i32", 6, "12-8", func(a, b uint64) bool { return i32(a) < i32(b) })
	minmax("s_min_u32", 7, "12-8", func(a, b uint64) bool { return u32(a) < u32(b) })
	minmax("s_max_i32", 8, "12-7", func(a, b uint64) bool { return i32(a) > i32(b) })
	minmax("s_max_u32", 9, "12-7", func(a, b uint64) bool { return u32(a) > u32(b) })
	sop2("s_cselect_b32", 10, b32, "12-6", func(c *SCtx) {
		if c.SCC != 0 {
			c.setD(uint64(u32(c.S0)))
		} else {
			c.setD(uint64(u32(c.S1)))
		}
	})
	sop2("s_cselect_b64", 11, b64, "12-6", func(c *SCtx) {
		if c.SCC != 0 {
			c.setD(c.S0)
		} else {
			c.setD(c.S1)
		}
	})
	logic := func(name string, op int, page string, f func(a, b uint64) uint64) {
		sop2(name+"_b32", op, b32, page, func(c *SCtx) {
			r := uint64(uint32(f(c.S0, c.S1)))
			c.setD(r)
			c.setSCC(r != 0)
		})
		sop2(name+"_b64", op+1, b64, page, func(c *SCtx) {
			r := f(c.S0, c.S1)
			c.setD(r)
			c.setSCC(r != 0)
		})
	}
	logic("s_and", 12, "12-2", func(a, b uint64) uint64 { return a & b })
	logic("s_or", 14, "12-10", func(a, b uint64) uint64 { return a | b })
	logic("s_xor", 16, "12-12", func(a, b uint64) uint64 { return a ^ b })
	logic("s_andn2", 18, "12-3", func(a, b uint64) uint64 { return a &^ b })
	logic("s_orn2", 20, "12-10", func(a, b uint64) uint64 { return a | ^b })
	logic("s_nand", 22, "12-9", func(a, b uint64) uint64 { return ^(a & b) })
	logic("s_nor", 24, "12-9", func(a, b uint64) uint64 { return ^(a | b) })
	logic("s_xnor", 26, "12-12", func(a, b uint64) uint64 { return ^(a ^ b) })

	sop2("s_lshl_b32", 28, b32, "12-6", func(c *SCtx) {
		r := uint64(u32(c.S0) << (c.S1 & 31))
		c.setD(r)
		c.setSCC(r != 0)
	})
	sop2("s_lshl_b64", 29, "D64,S64,S32", "12-6", func(c *SCtx) {
		r := c.S0 << (c.S1 & 63)
		c.setD(r)
		c.setSCC(r != 0)
	})
	sop2("s_lshr_b32", 30, b32, "12-7", func(c *SCtx) {
		r := uint64(u32(c.S0) >> (c.S1 & 31))
		c.setD(r)
		c.setSCC(r != 0)
	})
	sop2("s_lshr_b64", 31, "D64,S64,S32", "12-7", func(c *SCtx) {
		r := c.S0 >> (c.S1 & 63)
		c.setD(r)
		c.setSCC(r != 0)
	})
	sop2("s_ashr_i32", 32, b32, "12-3", func(c *SCtx) {
		r := uint64(uint32(i32(c.S0) >> (c.S1 & 31)))
		c.setD(r)
		c.setSCC(r != 0)
	})
	sop2("s_ashr_i64", 33, "D64,S64,S32", "12-3", func(c *SCtx) {
		r := uint64(int64(c.S0) >> (c.S1 & 63))
		c.setD(r)
		c.setSCC(r != 0)
	})
	sop2("s_bfm_b32", 34, b32, "12-5", func(c *SCtx) {
		c.setD(uint64(uint32(((uint64(1) << (c.S0 & 31)) - 1) << (c.S1 & 31))))
	})
	sop2("s_bfm_b64", 35, "D64,S32,S32", "12-5", func(c *SCtx) {
		c.setD(((uint64(1) << (c.S0 & 63)) - 1) << (c.S1 & 63))
	})
	sop2("s_mul_i32", 36, b32, "12-9", func(c *SCtx) {
		c.setD(uint64(uint32(i32(c.S0) * i32(c.S1)))) // table 5.2: does not set SCC
	})
	// S_BFE_*: 13-5: D = (S0 >> S1[4:0]) & ((1 << S1[22:16]) - 1); SCC = result non-zero.
	// Table 5.5 (5-6) lists the BFE row with "Sets SCC? n" while 12-4/13-5 say
	// SCC = 1 if result is non-zero: SCC is treated as undetermined (either).
	sop2("s_bfe_u32", 37, b32, "12-5", func(c *SCtx) {
		off := uint(c.S1 & 31)
		w := uint((c.S1 >> 16) & 0x7f)
		r := uint64(u32(c.S0)>>off) & maskN(w)
		c.setD(uint64(uint32(r)))
		c.setSCC(r != 0)
		c.AnySCC = true
		if w > 32 {
			c.AnyD = true
		}
	})
	sop2("s_bfe_i32", 38, b32, "12-4", func(c *SCtx) {
		off := uint(c.S1 & 31)
		w := uint((c.S1 >> 16) & 0x7f)
		var r uint32
		switch {
		case w == 0:
			r = 0
		case off+w < 32:
			r = uint32(int32(u32(c.S0)<<(32-off-w)) >> (32 - w))
		default:
			r = uint32(i32(c.S0) >> off)
		}
		c.setD(uint64(r))
		c.setSCC(r != 0)
		c.AnySCC = true
		if w >= 32 { // 12-4 uses width[4:0], 13-5 uses S1[22:16]: not decided
			c.AnyD = true
		}
	})
	sop2("s_bfe_u64", 39, "D64,S64,S32", "12-5", func(c *SCtx) {
		off := uint(c.S1 & 63)
		w := uint((c.S1 >> 16) & 0x7f)
		r := (c.S0 >> off) & maskN(w)
		c.setD(r)
		c.setSCC(r != 0)
		c.AnySCC = true
		if w > 64 {
			c.AnyD = true
		}
	})
	sop2("s_bfe_i64", 40, "D64,S64,S32", "12-4", func(c *SCtx) {
		off := uint(c.S1 & 63)
		w := uint((c.S1 >> 16) & 0x7f)
		var r uint64
		switch {
		case w == 0:
			r = 0
		case off+w < 64:
			r = uint64(int64(c.S0<<(64-off-w)) >> (64 - w))
		default:
			r = uint64(int64(c.S0) >> off)
		}
		c.setD(r)
		c.setSCC(r != 0)
		c.AnySCC = true
		if w >= 64 {
			c.AnyD = true
		}
	})
	sop2("s_absdiff_i32", 42, b32, "12-1", func(c *SCtx) {
		d := int64(i32(c.S0)) - int64(i32(c.S1))
		if d < 0 {
			d = -d
		}
		c.setD(uint64(uint32(d)))
		c.setSCC(uint32(d) != 0)
	})
	e := sop2("s_mul_hi_u32", 44, b32, "cdna3 table 66 (name only)", func(c *SCtx) {
		c.setD((uint64(u32(c.S0)) * uint64(u32(c.S1))) >> 32)
	})
	e.Arch = CDNA3
	e.Note = "not in the GCN3 manual; semantics from the opcode name (high half of the unsigned product), no SCC"

	// ---------------------------------------------------------------- SOP1
	// GCN3 manual 13-9/13-10, 12-19..12-36, table 5.5.
	sop1("s_mov_b32", "D32,S32", "12-25", func(c *SCtx) { c.setD(uint64(u32(c.S0))) })
	sop1("s_mov_b64", "D64,S64", "12-25", func(c *SCtx) { c.setD(c.S0) })
	sop1("s_cmov_b32", "D32,S32", "12-22", func(c *SCtx) {
		if c.SCC != 0 {
			c.setD(uint64(u32(c.S0)))
		}
	})
	sop1("s_cmov_b64", "D64,S64", "12-22", func(c *SCtx) {
		if c.SCC != 0 {
			c.setD(c.S0)
		}
	})
	sop1("s_not_b32", "D32,S32", "12-27", func(c *SCtx) {
		r := uint64(^u32(c.S0))
		c.setD(r)
		c.setSCC(r != 0)
	})
	sop1("s_not_b64", "D64,S64", "12-27", func(c *SCtx) {
		r := ^c.S0
		c.setD(r)
		c.setSCC(r != 0)
	})
	sop1("s_wqm_b32", "D32,S32", "12-30", func(c *SCtx) {
		r := wqm(uint64(u32(c.S0)), 32)
		c.setD(r)
		c.setSCC(r != 0)
	})
	sop1("s_wqm_b64", "D64,S64", "12-30", func(c *SCtx) {
		r := wqm(c.S0, 64)
		c.setD(r)
		c.setSCC(r != 0)
	})
	sop1("s_brev_b32", "D32,S32", "12-21", func(c *SCtx) { c.setD(uint64(bits.Reverse32(u32(c.S0)))) })
	sop1("s_brev_b64", "D64,S64", "12-21", func(c *SCtx) { c.setD(bits.Reverse64(c.S0)) })
	sop1("s_bcnt0_i32_b32", "D32,S32", "12-19", func(c *SCtx) {
		r := uint64(32 - bits.OnesCount32(u32(c.S0)))
		c.setD(r)
		c.setSCC(r != 0)
	})
	sop1("s_bcnt0_i32_b64", "D32,S64", "12-19", func(c *SCtx) {
		r := uint64(64 - bits.OnesCount64(c.S0))
		c.setD(r)
		c.setSCC(r != 0)
	})
	sop1("s_bcnt1_i32_b32", "D32,S32", "12-20", func(c *SCtx) {
		r := uint64(bits.OnesCount32(u32(c.S0)))
		c.setD(r)
		c.setSCC(r != 0)
	})
	sop1("s_bcnt1_i32_b64", "D32,S64", "12-20", func(c *SCtx) {
		r := uint64(bits.OnesCount64(c.S0))
		c.setD(r)
		c.setSCC(r != 0)
	})
	ff := func(v uint64, n int) uint64 { // first one from LSB, -1 if none
		if v == 0 {
			return 0xffffffff
		}
		_ = n
		return uint64(bits.TrailingZeros64(v))
	}
	sop1("s_ff0_i32_b32", "D32,S32", "12-23", func(c *SCtx) { c.setD(ff(uint64(^u32(c.S0)), 32)) })
	sop1("s_ff0_i32_b64", "D32,S64", "12-23", func(c *SCtx) { c.setD(ff(^c.S0, 64)) })
	sop1("s_ff1_i32_b32", "D32,S32", "12-23", func(c *SCtx) { c.setD(ff(uint64(u32(c.S0)), 32)) })
	sop1("s_ff1_i32_b64", "D32,S64", "12-23", func(c *SCtx) { c.setD(ff(c.S0, 64)) })
	sop1("s_flbit_i32_b32", "D32,S32", "12-24", func(c *SCtx) {
		if u32(c.S0) == 0 {
			c.setD(0xffffffff)
		} else {
			c.setD(uint64(bits.LeadingZeros32(u32(c.S0))))
		}
	})
	sop1("s_flbit_i32_b64", "D32,S64", "12-24", func(c *SCtx) {
		if c.S0 == 0 {
			c.setD(0xffffffff)
		} else {
			c.setD(uint64(bits.LeadingZeros64(c.S0)))
		}
	})
	// table 5.5 pseudo code: count of MSBs equal to the sign bit, -1 for 0 and -1
	sop1("s_flbit_i32", "D32,S32", "12-24", func(c *SCtx) {
		v := u32(c.S0)
		if v == 0 || v == 0xffffffff {
			c.setD(0xffffffff)
			return
		}
		if int32(v) < 0 {
			v = ^v
		}
		c.setD(uint64(bits.LeadingZeros32(v)))
	})
	sop1("s_flbit_i32_i64", "D32,S64", "12-24", func(c *SCtx) {
		v := c.S0
		if v == 0 || v == ^uint64(0) {
			c.setD(0xffffffff)
			return
		}
		if int64(v) < 0 {
			v = ^v
		}
		c.setD(uint64(bits.LeadingZeros64(v)))
	})
	sop1("s_sext_i32_i8", "D32,S32", "12-34", func(c *SCtx) { c.setD(uint64(uint32(int32(int8(c.S0))))) })
	sop1("s_sext_i32_i16", "D32,S32", "12-34", func(c *SCtx) { c.setD(uint64(uint32(int32(int16(c.S0))))) })
	sop1("s_bitset0_b32", "D32,S32", "12-20", func(c *SCtx) { c.setD(uint64(u32(c.D0) &^ (1 << (c.S0 & 31)))) })
	sop1("s_bitset0_b64", "D64,S32", "12-20", func(c *SCtx) { c.setD(c.D0 &^ (1 << (c.S0 & 63))) })
	sop1("s_bitset1_b32", "D32,S32", "12-21", func(c *SCtx) { c.setD(uint64(u32(c.D0) | (1 << (c.S0 & 31)))) })
	sop1("s_bitset1_b64", "D64,S32", "12-21", func(c *SCtx) { c.setD(c.D0 | (1 << (c.S0 & 63))) })
	sop1("s_getpc_b64", "D64", "12-25", func(c *SCtx) { c.setD(c.PC + 4) })
	sop1("s_setpc_b64", "S64", "12-33", func(c *SCtx) { c.jump(c.S0) })
	sop1("s_swappc_b64", "D64,S64", "12-35", func(c *SCtx) { c.setD(c.PC + 4); c.jump(c.S0) })
	saveexec := func(name, page string, f func(s, e uint64) uint64) {
		sop1(name, "D64,S64", page, func(c *SCtx) {
			c.setD(c.EXEC)
			r := f(c.S0, c.EXEC)
			c.setEXEC(r)
			c.setSCC(r != 0)
		})
	}
	saveexec("s_and_saveexec_b64", "12-19", func(s, e uint64) uint64 { return s & e })
	saveexec("s_or_saveexec_b64", "12-28", func(s, e uint64) uint64 { return s | e })
	saveexec("s_xor_saveexec_b64", "12-36", func(s, e uint64) uint64 { return s ^ e })
	saveexec("s_andn2_saveexec_b64", "12-19", func(s, e uint64) uint64 { return s &^ e })
	saveexec("s_orn2_saveexec_b64", "12-28", func(s, e uint64) uint64 { return s | ^e })
	saveexec("s_nand_saveexec_b64", "12-26", func(s, e uint64) uint64 { return ^(s & e) })
	saveexec("s_nor_saveexec_b64", "12-26", func(s, e uint64) uint64 { return ^(s | e) })
	saveexec("s_xnor_saveexec_b64", "12-36", func(s, e uint64) uint64 { return ^(s ^ e) })
	sop1("s_quadmask_b32", "D32,S32", "12-29", func(c *SCtx) {
		r := quadmask(uint64(u32(c.S0)), 32)
		c.setD(r)
		c.setSCC(r != 0)
	})
	sop1("s_quadmask_b64", "D64,S64", "12-29", func(c *SCtx) {
		r := quadmask(c.S0, 64)
		c.setD(r)
		c.setSCC(r != 0)
	})
	sop1("s_abs_i32", "D32,S32", "12-18", func(c *SCtx) {
		v := i32(c.S0)
		if v < 0 {
			v = -v
		}
		c.setD(uint64(uint32(v)))
		c.setSCC(v != 0)
	})

	// ---------------------------------------------------------------- SOPC
	// GCN3 manual 13-12, 12-37..
	cmp := func(name, page string, f func(a, b uint64) bool) {
		sopc(name, "S32,S32", page, func(c *SCtx) { c.setSCC(f(c.S0, c.S1)) })
	}
	cmp("s_cmp_eq_i32", "12-37", func(a, b uint64) bool { return i32(a) == i32(b) })
	cmp("s_cmp_lg_i32", "12-37", func(a, b uint64) bool { return i32(a) != i32(b) })
	cmp("s_cmp_gt_i32", "12-37", func(a, b uint64) bool { return i32(a) > i32(b) })
	cmp("s_cmp_ge_i32", "12-37", func(a, b uint64) bool { return i32(a) >= i32(b) })
	cmp("s_cmp_lt_i32", "12-37", func(a, b uint64) bool { return i32(a) < i32(b) })
	cmp("s_cmp_le_i32", "12-37", func(a, b uint64) bool { return i32(a) <= i32(b) })
	cmp("s_cmp_eq_u32", "12-37", func(a, b uint64) bool { return u32(a) == u32(b) })
	cmp("s_cmp_lg_u32", "12-37", func(a, b uint64) bool { return u32(a) != u32(b) })
	cmp("s_cmp_gt_u32", "12-37", func(a, b uint64) bool { return u32(a) > u32(b) })
	cmp("s_cmp_ge_u32", "12-37", func(a, b uint64) bool { return u32(a) >= u32(b) })
	cmp("s_cmp_lt_u32", "12-37", func(a, b uint64) bool { return u32(a) < u32(b) })
	cmp("s_cmp_le_u32", "12-37", func(a, b uint64) bool { return u32(a) <= u32(b) })
	sopc("s_bitcmp0_b32", "S32,S32", "12-36", func(c *SCtx) { c.setSCC((u32(c.S0)>>(c.S1&31))&1 == 0) })
	sopc("s_bitcmp1_b32", "S32,S32", "12-36", func(c *SCtx) { c.setSCC((u32(c.S0)>>(c.S1&31))&1 == 1) })
	sopc("s_bitcmp0_b64", "S64,S32", "12-36", func(c *SCtx) { c.setSCC((c.S0>>(c.S1&63))&1 == 0) })
	sopc("s_bitcmp1_b64", "S64,S32", "12-36", func(c *SCtx) { c.setSCC((c.S0>>(c.S1&63))&1 == 1) })
	sopc("s_cmp_eq_u64", "S64,S64", "12-37", func(c *SCtx) { c.setSCC(c.S0 == c.S1) })
	sopc("s_cmp_lg_u64", "S64,S64", "12-37", func(c *SCtx) { c.setSCC(c.S0 != c.S1) })

	// ---------------------------------------------------------------- SOPK
	// GCN3 manual 13-7, 12-13..12-17, table 5.4: simm16 sign-extended for
	// I32, zero-extended for U32.
	sopk("s_movk_i32", "12-16", func(c *SCtx) { c.setD(uint64(uint32(simm(c.Imm)))) })
	sopk("s_cmovk_i32", "12-13", func(c *SCtx) {
		if c.SCC != 0 {
			c.setD(uint64(uint32(simm(c.Imm))))
		}
	})
	cmpk := func(name, page string, f func(d uint64, imm uint16) bool) {
		sopk(name, page, func(c *SCtx) { c.setSCC(f(c.D0, c.Imm)) })
	}
	cmpk("s_cmpk_eq_i32", "12-14", func(d uint64, k uint16) bool { return i32(d) == simm(k) })
	cmpk("s_cmpk_lg_i32", "12-15", func(d uint64, k uint16) bool { return i32(d) != simm(k) })
	cmpk("s_cmpk_gt_i32", "12-14", func(d uint64, k uint16) bool { return i32(d) > simm(k) })
	cmpk("s_cmpk_ge_i32", "12-14", func(d uint64, k uint16) bool { return i32(d) >= simm(k) })
	cmpk("s_cmpk_lt_i32", "12-15", func(d uint64, k uint16) bool { return i32(d) < simm(k) })
	cmpk("s_cmpk_le_i32", "12-15", func(d uint64, k uint16) bool { return i32(d) <= simm(k) })
	cmpk("s_cmpk_eq_u32", "12-14", func(d uint64, k uint16) bool { return u32(d) == uint32(k) })
	cmpk("s_cmpk_lg_u32", "12-15", func(d uint64, k uint16) bool { return u32(d) != uint32(k) })
	cmpk("s_cmpk_gt_u32", "12-14", func(d uint64, k uint16) bool { return u32(d) > uint32(k) })
	cmpk("s_cmpk_ge_u32", "12-14", func(d uint64, k uint16) bool { return u32(d) >= uint32(k) })
	cmpk("s_cmpk_lt_u32", "12-15", func(d uint64, k uint16) bool { return u32(d) < uint32(k) })
	// 12-15 / 13-7 print "D.u = SCC = (D.u <= SIMM16)" for LE_U32 (a typo, table 5.4
	// lists it with the other compares): D is left alone.
	sopk("s_cmpk_le_u32", "12-15", func(c *SCtx) { c.setSCC(u32(c.D0) <= uint32(c.Imm)) })
	sopk("s_addk_i32", "12-13", func(c *SCtx) {
		r := int64(i32(c.D0)) + int64(simm(c.Imm))
		c.setD(uint64(uint32(r)))
		c.setSCC(r != int64(int32(r)))
	})
	// S_MULK_I32: 12-17 and 13-7 say "SCC = overflow", table 5.2 (5-5) says it does
	// not set SCC: SCC undetermined.
	sopk("s_mulk_i32", "12-17", func(c *SCtx) {
		r := int64(i32(c.D0)) * int64(simm(c.Imm))
		c.setD(uint64(uint32(r)))
		c.setSCC(r != int64(int32(r)))
		c.AnySCC = true
	})

	// ---------------------------------------------------------------- SOPP
	// GCN3 manual 13-13, 12-38..: PC = PC + signext(SIMM16*4) + 4.
	target := func(c *SCtx) uint64 { return c.PC + 4 + uint64(int64(simm(c.Imm))*4) }
	sopp("s_nop", "K16", "12-43", func(c *SCtx) {})
	sopp("s_waitcnt", "", "12-48", func(c *SCtx) {})
	sopp("s_branch", "K16", "12-38", func(c *SCtx) { c.jump(target(c)) })
	br := func(name, page string, cond func(c *SCtx) bool) {
		sopp(name, "K16", page, func(c *SCtx) {
			if cond(c) {
				c.jump(target(c))
			}
		})
	}
	br("s_cbranch_scc0", "12-40", func(c *SCtx) bool { return c.SCC == 0 })
	br("s_cbranch_scc1", "12-40", func(c *SCtx) bool { return c.SCC == 1 })
	br("s_cbranch_vccz", "12-41", func(c *SCtx) bool { return c.VCC == 0 })
	br("s_cbranch_vccnz", "12-41", func(c *SCtx) bool { return c.VCC != 0 })
	br("s_cbranch_execz", "12-39", func(c *SCtx) bool { return c.EXEC == 0 })
	br("s_cbranch_execnz", "12-39", func(c *SCtx) bool { return c.EXEC != 0 })
}
