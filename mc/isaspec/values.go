package isaspec

// Boundary value alphabets (DESIGN.md C03).

// I32Quick is the integer alphabet of the quick tier (26 values).
var I32Quick = []uint64{
	0, 1, 2, 0xffffffff, 0xfffffffe,
	7, 8, 16, 31, 32, 33, 63, 64,
	0x7fff, 0x8000, 0xffff, 0x10000,
	0x7fffffff, 0x80000000, 0x80000001,
	0x55555555, 0xaaaaaaaa,
	0x00800000, 0x00ffffff,
	0x001f001f, 0x00080004, // bit-field descriptors (width<<16 | offset)
}

// I32Full adds more 2^k +/- 1 values, 24-bit boundaries and bit-field
// descriptors (width<<16 | offset).
var I32Full = append(append([]uint64{}, I32Quick...),
	9, 15, 17, 65, 0xff, 0x100, 0x007fffff, 0x01000000, 0x00ff00ff,
	0x00200000, 0x00010000|31, 0x00400000|5, 0x007f0000|1, 0x00100010,
)

// I64 is the 64-bit integer alphabet.
var I64 = []uint64{
	0, 1, 0xffffffffffffffff, 0xfffffffffffffffe,
	31, 32, 33, 63, 64, 65,
	0x7fffffff, 0x80000000, 0xffffffff, 0x100000000, 0x100000001,
	0x7fffffffffffffff, 0x8000000000000000, 0x8000000000000001,
	0x5555555555555555, 0xaaaaaaaaaaaaaaaa, 0xffffffff00000000, 0x0123456789abcdef,
}

// F32 is the single precision alphabet.
var F32 = []uint64{
	0x00000000, 0x80000000, // +-0
	0x3f800000, 0xbf800000, // +-1
	0x00000001, 0x80000001, // +-min denormal
	0x007fffff, 0x00800000, // max denormal, min normal
	0x7f7fffff, 0xff7fffff, // +-max
	0x7f800000, 0xff800000, // +-inf
	0x7fc00000, 0x7f800001, 0xffc00000, // qNaN, sNaN, -qNaN
	0x3f800001, 0x3f7fffff, // 1+ulp, 1-ulp/2
	0x33800000, 0x33800001, // 2^-24 (tie when added to 1), just above
	0x3f000000, 0x3fc00000, 0x40200000, 0xbf000000, 0xc0200000, // 0.5 1.5 2.5 -0.5 -2.5
	0x4b000000, 0x4b800000, // 2^23, 2^24
	0x4effffff, 0x4f000000, 0xcf000000, 0x4f7fffff, 0x4f800000, // around 2^31, 2^32
	0x40490fdb, 0x3eaaaaab, // pi, 1/3
}

// F32Quick is a 16 value subset.
var F32Quick = []uint64{
	0x00000000, 0x80000000, 0x3f800000, 0xbf800000, 0x00000001, 0x80000001,
	0x7f7fffff, 0xff7fffff, 0x7f800000, 0xff800000, 0x7fc00000, 0x7f800001,
	0x3f800001, 0x33800000, 0x40200000, 0x4f000000,
}

// F64 is the double precision alphabet.
var F64 = []uint64{
	0x0000000000000000, 0x8000000000000000,
	0x3ff0000000000000, 0xbff0000000000000,
	0x0000000000000001, 0x8000000000000001,
	0x000fffffffffffff, 0x0010000000000000,
	0x7fefffffffffffff, 0xffefffffffffffff,
	0x7ff0000000000000, 0xfff0000000000000,
	0x7ff8000000000000, 0x7ff0000000000001,
	0x3ff0000000000001, 0x3fefffffffffffff,
	0x3ca0000000000000, 0x3ca0000000000001, // 2^-53 (tie with 1), just above
	0x3fe0000000000000, 0x3ff8000000000000, 0x4004000000000000, 0xc004000000000000,
	0x41dfffffffc00000, 0x41e0000000000000, 0xc1e0000000200000, 0x41f0000000000000, // 2^31-1, 2^31, -(2^31+1), 2^32
	0x4330000000000000, 0x4340000000000000, // 2^52, 2^53
	0x47efffffe0000000, 0x47effffff0000000, 0x36a0000000000000, // float32 max, rounds up to inf in f32, 2^-149
}

// F64Quick is a 14 value subset.
var F64Quick = []uint64{
	0, 0x8000000000000000, 0x3ff0000000000000, 0xbff0000000000000, 0x0000000000000001,
	0x7fefffffffffffff, 0x7ff0000000000000, 0xfff0000000000000, 0x7ff8000000000000, 0x7ff0000000000001,
	0x3ff0000000000001, 0x3ca0000000000000, 0x4004000000000000, 0x47effffff0000000,
}

// M64 is the alphabet of 64-bit lane masks (EXEC, VCC).
var M64 = []uint64{
	0xffffffffffffffff, 0, 0x5555555555555555, 0xaaaaaaaaaaaaaaaa, 1, 0x8000000000000000,
	0x00000000ffffffff, 0xffffffff00000000, 0x8000000000000001, 0x0123456789abcdef,
}

// Imm16 is the alphabet of 16-bit immediates.
var Imm16 = []uint64{0, 1, 2, 0x7fff, 0x8000, 0x8001, 0xffff, 0xfffe, 0x00ff, 0x0100, 31, 32}

// I32Wide adds every power of two and its neighbours (thorough tier, forms
// with at most two varied operands).
var I32Wide = func() []uint64 {
	seen := map[uint64]bool{}
	var out []uint64
	add := func(v uint64) {
		v &= 0xffffffff
		if !seen[v] {
			seen[v] = true
			out = append(out, v)
		}
	}
	for _, v := range I32Full {
		add(v)
	}
	for k := uint(0); k < 32; k++ {
		add(1 << k)
		add(1<<k - 1)
		add(1<<k + 1)
		add(^(uint64(1) << k))
	}
	return out
}()
