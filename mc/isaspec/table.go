package isaspec

import (
	"fmt"
	"sort"
	"strings"
)

// Arch selects the ISA generation.
type Arch int

// Architectures.
const (
	GCN3 Arch = 1 << iota
	CDNA3
	Both = GCN3 | CDNA3
)

func (a Arch) String() string {
	switch a {
	case GCN3:
		return "gcn3"
	case CDNA3:
		return "cdna3"
	}
	return "both"
}

// Class is the execution template of an entry.
type Class int

// Classes.
const (
	CScalar Class = iota // SOP2, SOP1, SOPC, SOPK, SOPP
	CVector              // per-lane VALU operation
	CReadFirstLane
	CSMEM
	CDS
	CFLAT
)

// Role is one operand position of the assembly syntax.
type Role struct {
	R     byte // 'D' dest, 'S' source, 'C' mask dest (carry-out / compare result), 'I' mask source (carry-in / select), 'K' 16-bit immediate, 'A' address, 'X' ignored ("off")
	Bits  int
	Float bool // floating point typed (input/output modifiers apply, float inline constants have this width)
}

// Entry is the specification of one opcode.
type Entry struct {
	Name  string
	Fmt   string // SOP2 SOP1 SOPC SOPK SOPP VOP1 VOP2 VOP3 VOPC SMEM DS FLAT
	Arch  Arch   // which manuals define it under this name
	Class Class
	Pat   []Role
	S     func(c *SCtx)
	V     func(c *VCtx)
	M     *MemOp
	// flags
	AccD      bool   // destination is also a source (v_mac: S2 = D)
	Cmpx      bool   // also writes EXEC
	NoVOP3    bool   // has no VOP3 encoding
	OnlyE64   bool   // VOP3-only opcode
	SDWAQuirk string // deviation models only: "pad-always", "sext-fills-low-bits"
	Page      string // page of the GCN3 manual (chapter 12/13) the entry was transcribed from
	Note      string
}

var registry = map[string]*Entry{}

// Pat parses an operand pattern (exported for deviation models).
func Pat(s string) []Role { return pat(s) }

func pat(s string) []Role {
	var out []Role
	if s == "" {
		return out
	}
	for _, t := range strings.Split(s, ",") {
		r := Role{R: t[0]}
		rest := t[1:]
		if strings.HasSuffix(rest, "f") {
			r.Float = true
			rest = rest[:len(rest)-1]
		}
		if rest != "" {
			fmt.Sscanf(rest, "%d", &r.Bits)
		}
		if (r.R == 'C' || r.R == 'I') && r.Bits == 0 {
			r.Bits = 64
		}
		out = append(out, r)
	}
	return out
}

func reg(e *Entry) {
	if _, dup := registry[e.Name]; dup {
		panic("duplicate spec entry " + e.Name)
	}
	if e.Arch == 0 {
		e.Arch = Both
	}
	registry[e.Name] = e
}

// Lookup finds the specification of a base mnemonic.
func Lookup(base string) *Entry { return registry[base] }

// Entries lists all entries sorted by format and name.
func Entries() []*Entry {
	var out []*Entry
	for _, e := range registry {
		out = append(out, e)
	}
	sort.Slice(out, func(i, j int) bool {
		if out[i].Fmt != out[j].Fmt {
			return out[i].Fmt < out[j].Fmt
		}
		return out[i].Name < out[j].Name
	})
	return out
}

// NotCovered lists opcodes that the ALUs implement but for which the manuals
// give no exact reference (or which are outside the property's subset).
var NotCovered = map[string]string{
	"v_exp_f32":        "transcendental, no exact reference (1 ULP)",
	"v_log_f32":        "transcendental, no exact reference",
	"v_log_legacy_f32": "transcendental, no exact reference",
	"v_rcp_f32":        "approximate reciprocal (<1 ULP), no exact reference",
	"v_rcp_iflag_f32":  "approximate reciprocal, no exact reference",
	"v_rcp_f64":        "approximate reciprocal, no exact reference",
	"v_rsq_f32":        "approximate, no exact reference",
	"v_sqrt_f32":       "approximate, no exact reference",
	"v_div_scale_f32":  "division helper, not in the property's subset",
	"v_div_scale_f64":  "division helper, not in the property's subset",
	"v_div_fixup_f32":  "division helper, not in the property's subset",
	"v_div_fixup_f64":  "division helper, not in the property's subset",
	"v_div_fmas_f32":   "division helper, not in the property's subset",
	"v_div_fmas_f64":   "division helper, not in the property's subset",
	"v_cvt_f16_f32":    "f16 conversion: rounding/denormal behaviour mode dependent, not in subset",
	"v_mul_legacy_f32": "DX9 legacy multiply, not in the property's subset",
	"v_pk_fma_f32":     "CDNA3 packed math: semantics only in the (absent) CDNA3 instruction chapter",
	"v_pk_mul_f32":     "CDNA3 packed math: semantics only in the (absent) CDNA3 instruction chapter",
	"v_pk_add_f32":     "CDNA3 packed math: semantics only in the (absent) CDNA3 instruction chapter",
	"v_movrelsd_b32":   "relative addressing via M0, not in the property's subset (no llvm-mc encoding for gfx90a)",
	"v_fma_f16":        "half precision, not in the property's subset (the CDNA3 ALU dispatches VOP3b opcode 494 to its v_div_scale_f64 handler)",
}
