package isaspec

import (
	"math"
	"math/big"
)

// Float helpers. All results are bit patterns. Rounding is round-to-nearest-
// even (MODE.FP_ROUND = 0, the reset value; the emulator has no MODE
// register). Denormal handling depends on MODE.FP_DENORM (manual 6.4), which
// the emulator does not model either: every combination of "flush inputs" and
// "flush outputs" is an acceptable result, so a float result is a *set* of
// bit patterns. NaN payloads are not defined by the manual: when the result
// is a NaN any NaN is accepted.

func isNaN32(b uint32) bool { return b&0x7f800000 == 0x7f800000 && b&0x007fffff != 0 }
func isNaN64(b uint64) bool {
	return b&0x7ff0000000000000 == 0x7ff0000000000000 && b&0x000fffffffffffff != 0
}
func isSNaN32(b uint32) bool { return isNaN32(b) && b&0x00400000 == 0 }
func isDen32(b uint32) bool  { return b&0x7f800000 == 0 && b&0x007fffff != 0 }
func isDen64(b uint64) bool {
	return b&0x7ff0000000000000 == 0 && b&0x000fffffffffffff != 0
}
func flush32(b uint32) uint32 {
	if isDen32(b) {
		return b & 0x80000000
	}
	return b
}
func flush64(b uint64) uint64 {
	if isDen64(b) {
		return b & 0x8000000000000000
	}
	return b
}
func f32(b uint32) float32  { return math.Float32frombits(b) }
func b32f(f float32) uint32 { return math.Float32bits(f) }
func f64(b uint64) float64  { return math.Float64frombits(b) }
func b64f(f float64) uint64 { return math.Float64bits(f) }

// fres accumulates the acceptable results of one lane.
type fres struct {
	vals []uint64
	nan  bool
}

func (r *fres) add32(b uint32) {
	if isNaN32(b) {
		r.nan = true
		return
	}
	r.addv(uint64(b))
}
func (r *fres) add64(b uint64) {
	if isNaN64(b) {
		r.nan = true
		return
	}
	r.addv(b)
}
func (r *fres) addv(v uint64) {
	for _, x := range r.vals {
		if x == v {
			return
		}
	}
	r.vals = append(r.vals, v)
}

// store puts the result set into the lane context.
func (r *fres) store(c *VCtx, bits int) {
	c.WD = true
	c.NaNOK = r.nan
	c.NaNBits = bits
	if len(r.vals) == 0 {
		// only NaN: canonical quiet NaN as the representative
		if bits == 64 {
			c.D = 0x7ff8000000000000
		} else {
			c.D = 0x7fc00000
		}
		return
	}
	c.D = r.vals[0]
	c.Alt = append(c.Alt[:0], r.vals[1:]...)
}

// op32 evaluates an n-ary single precision operation under all four denormal
// modes. op gets (possibly flushed) inputs and returns the RNE result.
func op32(c *VCtx, in []uint32, op func(x []uint32) uint32) {
	var r fres
	tmp := make([]uint32, len(in))
	for fi := 0; fi < 2; fi++ {
		for i, v := range in {
			if fi == 1 {
				v = flush32(v)
			}
			tmp[i] = v
		}
		o := op(tmp)
		r.add32(o)
		r.add32(flush32(o))
	}
	r.store(c, 32)
}

func op64(c *VCtx, in []uint64, op func(x []uint64) uint64) {
	var r fres
	tmp := make([]uint64, len(in))
	for fi := 0; fi < 2; fi++ {
		for i, v := range in {
			if fi == 1 {
				v = flush64(v)
			}
			tmp[i] = v
		}
		o := op(tmp)
		r.add64(o)
		r.add64(flush64(o))
	}
	r.store(c, 64)
}

func add32(a, b uint32) uint32 { return b32f(f32(a) + f32(b)) }
func sub32(a, b uint32) uint32 { return b32f(f32(a) - f32(b)) }
func mul32(a, b uint32) uint32 { return b32f(f32(a) * f32(b)) }

func allFinite(v ...float64) bool {
	for _, x := range v {
		if math.IsNaN(x) || math.IsInf(x, 0) {
			return false
		}
	}
	return true
}

// fma32 is the exactly rounded a*b+c in single precision.
func fma32(a, b, c uint32) uint32 {
	x, y, z := float64(f32(a)), float64(f32(b)), float64(f32(c))
	if !allFinite(x, y, z) {
		return b32f(float32(math.FMA(x, y, z))) // infinities and NaNs: no rounding involved
	}
	p := new(big.Float).SetPrec(2048).SetMode(big.ToNearestEven)
	p.Mul(new(big.Float).SetPrec(2048).SetFloat64(x), new(big.Float).SetPrec(2048).SetFloat64(y))
	p.Add(p, new(big.Float).SetPrec(2048).SetFloat64(z))
	if p.Sign() == 0 {
		// exact zero (RNE): a sum of two zeros of the same sign keeps it, otherwise +0
		if (x == 0 || y == 0) && z == 0 && (math.Signbit(x) != math.Signbit(y)) && math.Signbit(z) {
			return 0x80000000
		}
		return 0
	}
	f, _ := p.Float32()
	return b32f(f)
}

// fma64 is the exactly rounded a*b+c in double precision.
func fma64(a, b, c uint64) uint64 {
	x, y, z := f64(a), f64(b), f64(c)
	if !allFinite(x, y, z) {
		return b64f(math.FMA(x, y, z))
	}
	const prec = 6000
	p := new(big.Float).SetPrec(prec).SetMode(big.ToNearestEven)
	p.Mul(new(big.Float).SetPrec(prec).SetFloat64(x), new(big.Float).SetPrec(prec).SetFloat64(y))
	p.Add(p, new(big.Float).SetPrec(prec).SetFloat64(z))
	if p.Sign() == 0 {
		sp := math.Signbit(x) != math.Signbit(y)
		if (x == 0 || y == 0) && z == 0 {
			if sp && math.Signbit(z) {
				return 0x8000000000000000
			}
			return 0
		}
		return 0 // exact cancellation of non-zero terms: +0 under RNE
	}
	f, _ := p.Float64()
	return b64f(f)
}

// min/max per 12-70 / 12-66, both IEEE and non-IEEE mode are acceptable.
func minmax32(c *VCtx, a, b uint32, isMax bool) {
	var r fres
	for fi := 0; fi < 2; fi++ {
		x, y := a, b
		if fi == 1 {
			x, y = flush32(a), flush32(b)
		}
		pick := func(ieee bool) uint32 {
			switch {
			case ieee && isSNaN32(x):
				return x | 0x00400000
			case ieee && isSNaN32(y):
				return y | 0x00400000
			case isNaN32(x):
				return y
			case isNaN32(y):
				return x
			}
			fx, fy := f32(x), f32(y)
			if isMax {
				if fx > fy || (!ieee && fx >= fy) {
					return x
				}
				return y
			}
			if fx < fy {
				return x
			}
			return y
		}
		for _, ieee := range []bool{false, true} {
			o := pick(ieee)
			if isNaN32(o) {
				r.nan = true
			} else {
				r.addv(uint64(o))
				r.addv(uint64(flush32(o)))
			}
		}
		// +0 / -0: the manual's comparison does not order the zeros; either is accepted
		if !isNaN32(x) && !isNaN32(y) && f32(x) == 0 && f32(y) == 0 {
			r.addv(uint64(x))
			r.addv(uint64(y))
		}
	}
	r.store(c, 32)
}

func minmax64(c *VCtx, a, b uint64, isMax bool) {
	var r fres
	for fi := 0; fi < 2; fi++ {
		x, y := a, b
		if fi == 1 {
			x, y = flush64(a), flush64(b)
		}
		var o uint64
		switch {
		case isNaN64(x) && isNaN64(y):
			r.nan = true
			continue
		case isNaN64(x):
			o = y
		case isNaN64(y):
			o = x
		default:
			fx, fy := f64(x), f64(y)
			if (isMax && fx > fy) || (!isMax && fx < fy) {
				o = x
			} else {
				o = y
			}
			if fx == fy {
				r.addv(x)
				r.addv(y)
			}
		}
		// IEEE mode quiets a signalling NaN instead of returning the number
		if (isNaN64(x) && x&0x0008000000000000 == 0) || (isNaN64(y) && y&0x0008000000000000 == 0) {
			r.nan = true
		}
		r.addv(o)
		r.addv(flush64(o))
	}
	r.store(c, 64)
}

// cvtToInt converts with truncation and saturation (12-94, 12-97): NaN -> 0.
func cvtToI32(f float64) []uint64 {
	switch {
	case math.IsNaN(f):
		return []uint64{0}
	case f >= 2147483648.0:
		return []uint64{0x7fffffff}
	case f <= -2147483649.0:
		// "saturate to ... -max_int": 0x80000001 by the letter, 0x80000000 as the C cast saturates
		return []uint64{0x80000000, 0x80000001}
	}
	return []uint64{uint64(uint32(int32(math.Trunc(f))))}
}

func cvtToU32(f float64) []uint64 {
	switch {
	case math.IsNaN(f):
		return []uint64{0}
	case f >= 4294967296.0:
		return []uint64{0xffffffff}
	case f <= 0:
		return []uint64{0}
	}
	return []uint64{uint64(uint32(math.Trunc(f)))}
}
