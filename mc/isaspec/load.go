package isaspec

import (
	"bufio"
	"embed"
	"encoding/hex"
	"fmt"
	"strings"
)

//go:embed testdata/*.tbl
var tables embed.FS

// Form is one committed encoding: canonical llvm-mc text and its bytes.
type Form struct {
	Text  string
	Bytes []byte
	Group string // generator's tag (operand-kind variant)
}

// Forms loads the encodings of an architecture (assembled at authoring time
// by gen/ with llvm-mc-14; gfx803 for GCN3, gfx90a for CDNA3).
func Forms(a Arch) ([]Form, error) {
	name := "testdata/gfx803.tbl"
	if a == CDNA3 {
		name = "testdata/gfx90a.tbl"
	}
	f, err := tables.Open(name)
	if err != nil {
		return nil, err
	}
	defer f.Close()
	var out []Form
	sc := bufio.NewScanner(f)
	sc.Buffer(make([]byte, 1<<20), 1<<20)
	ln := 0
	for sc.Scan() {
		ln++
		line := sc.Text()
		if line == "" || line[0] == '#' {
			continue
		}
		parts := strings.SplitN(line, "\t", 3)
		if len(parts) != 3 {
			return nil, fmt.Errorf("%s:%d: malformed", name, ln)
		}
		b, err := hex.DecodeString(parts[0])
		if err != nil {
			return nil, fmt.Errorf("%s:%d: %v", name, ln, err)
		}
		out = append(out, Form{Text: parts[2], Bytes: b, Group: parts[1]})
	}
	return out, sc.Err()
}
