package isaspec

import (
	"encoding/binary"
	"fmt"
	"math/bits"
)

// loc is a place in the state where the manual admits more than one value.
type loc struct {
	name string
	get  func(*State) uint64
	set  func(*State, uint64)
	ok   func(uint64) bool
}

// Expect is the specified outcome of one instruction on one pre-state.
type Expect struct {
	Post *State // canonical post-state
	locs []loc
	// Unsupported is set when the specification cannot decide this instance
	// (it is then skipped and counted, never reported).
	Unsupported string
}

// Resolve rewrites the canonical post-state at every under-determined place
// whose actual value is one of the admitted values, so that a plain equality
// test decides conformance.
func (x *Expect) Resolve(got *State) {
	for _, l := range x.locs {
		v := l.get(got)
		if l.ok(v) {
			l.set(x.Post, v)
		}
	}
}

// LookupArch finds the entry for a mnemonic on an architecture.
func LookupArch(base string, a Arch) *Entry {
	if a == CDNA3 {
		if e, ok := registry[base+"@cdna3"]; ok {
			return e
		}
	}
	e := registry[base]
	if e == nil || e.Arch&a == 0 {
		return nil
	}
	return e
}

// Exec computes the specified post-state of in on pre. post must be a copy of
// pre (the caller owns the buffers); it is updated in place.
func Exec(in *Instr, e *Entry, pre, post *State) *Expect {
	x := &Expect{Post: post}
	post.PC = pre.PC + uint64(in.Size())
	switch e.Class {
	case CScalar:
		execScalar(x, in, e, pre, post)
	case CVector:
		execVector(x, in, e, pre, post)
	case CReadFirstLane:
		lane := 0
		if pre.EXEC != 0 {
			lane = bits.TrailingZeros64(pre.EXEC)
		}
		post.WriteScalar(in.Ops[0], 32, pre.ReadLane(in.Ops[1], 32, lane))
	case CSMEM, CDS, CFLAT:
		execMem(x, in, e, pre, post)
	default:
		x.Unsupported = "class"
	}
	return x
}

func execScalar(x *Expect, in *Instr, e *Entry, pre, post *State) {
	c := SCtx{SCC: pre.SCC, EXEC: pre.EXEC, VCC: pre.VCC, PC: pre.PC}
	var dOp *Operand
	dBits := 0
	si := 0
	if len(e.Pat) != len(in.Ops) {
		x.Unsupported = fmt.Sprintf("operand count %d != pattern %d", len(in.Ops), len(e.Pat))
		return
	}
	for i, r := range e.Pat {
		op := in.Ops[i]
		switch r.R {
		case 'D':
			o := op
			dOp, dBits = &o, r.Bits
			c.D0 = pre.ReadScalar(op, r.Bits)
		case 'S':
			v := pre.ReadScalar(op, r.Bits)
			if si == 0 {
				c.S0 = v
			} else {
				c.S1 = v
			}
			si++
		case 'K':
			c.Imm = uint16(op.Int)
		}
	}
	e.S(&c)
	// Effects. Order: the destination is written first, then SCC / EXEC / PC:
	// when the destination operand itself is EXEC or VCC the manual gives no
	// order; such forms are generated only for opcodes without that conflict.
	if c.WD {
		if dOp == nil {
			panic(e.Name + ": writes D without a destination operand")
		}
		post.WriteScalar(*dOp, dBits, c.D)
		if c.AnyD {
			o, b := *dOp, dBits
			x.locs = append(x.locs, loc{"D", func(s *State) uint64 { return s.ReadScalar(o, b) },
				func(s *State, v uint64) { s.WriteScalar(o, b, v) }, func(uint64) bool { return true }})
		}
	}
	if c.WEXEC {
		post.EXEC = c.EXECo
	}
	if c.WSCC {
		post.SCC = c.SCCo
		if c.AnySCC {
			old, nw := uint64(pre.SCC), uint64(c.SCCo)
			x.locs = append(x.locs, loc{"SCC", func(s *State) uint64 { return uint64(s.SCC) },
				func(s *State, v uint64) { s.SCC = uint8(v) }, func(v uint64) bool { return v == old || v == nw }})
		}
		if c.AnyD {
			x.locs = append(x.locs, loc{"SCC", func(s *State) uint64 { return uint64(s.SCC) },
				func(s *State, v uint64) { s.SCC = uint8(v) }, func(v uint64) bool { return v <= 1 }})
		}
	}
	if c.WPC {
		post.PC = c.PCo
	}
}

func modAbsNeg(v uint64, bits int, o Operand) uint64 {
	sign := uint64(1) << uint(bits-1)
	if o.Abs {
		v &^= sign
	}
	if o.Neg {
		v ^= sign
	}
	return v
}

// outMod applies OMOD and CLAMP (13-35) to one single/double result.
func outMod(v uint64, bits int, omod float64, clamp bool) []uint64 {
	if omod == 1 && !clamp {
		return []uint64{v}
	}
	var out []uint64
	if bits == 32 {
		f := f32(uint32(v))
		if omod != 1 {
			f = f * float32(omod)
		}
		if clamp {
			if f < 0 {
				f = 0
			} else if f > 1 {
				f = 1
			}
		}
		b := b32f(f)
		out = append(out, uint64(b), uint64(flush32(b)))
		if b&0x7fffffff == 0 {
			out = append(out, uint64(b^0x80000000))
		}
	} else {
		f := f64(v)
		if omod != 1 {
			f = f * omod
		}
		if clamp {
			if f < 0 {
				f = 0
			} else if f > 1 {
				f = 1
			}
		}
		b := b64f(f)
		out = append(out, b, flush64(b))
		if b&0x7fffffffffffffff == 0 {
			out = append(out, b^0x8000000000000000)
		}
	}
	return out
}

func execVector(x *Expect, in *Instr, e *Entry, pre, post *State) {
	if len(e.Pat) != len(in.Ops) {
		x.Unsupported = fmt.Sprintf("operand count %d != pattern %d", len(in.Ops), len(e.Pat))
		return
	}
	var dOp, cOp, iOp *Operand
	var dRole Role
	var srcOps []Operand
	var srcRoles []Role
	for i, r := range e.Pat {
		op := in.Ops[i]
		switch r.R {
		case 'D':
			o := op
			dOp, dRole = &o, r
		case 'C':
			o := op
			cOp = &o
		case 'I':
			o := op
			iOp = &o
		case 'S':
			srcOps = append(srcOps, op)
			srcRoles = append(srcRoles, r)
		}
	}
	omod := 1.0
	if s, ok := in.Mods["mul"]; ok {
		omod = float64(s[0] - '0')
	}
	if _, ok := in.Mods["div"]; ok {
		omod = 0.5
	}
	clamp := in.Has("clamp")
	if (omod != 1 || clamp) && !(dOp != nil && dRole.Float) {
		x.Unsupported = "output modifier on non-float destination"
		return
	}
	sdwa := in.Enc == "sdwa"
	if sdwa && (dOp == nil || dRole.Bits != 32 || len(srcOps) != 2 || cOp != nil) {
		x.Unsupported = "sdwa form outside the specified subset"
		return
	}
	var cin uint64
	if iOp != nil {
		cin = pre.ReadScalar(*iOp, 64)
	}
	var cmask, cany uint64
	wroteC := false
	for lane := 0; lane < NumLanes; lane++ {
		if pre.EXEC>>uint(lane)&1 == 0 {
			continue
		}
		c := VCtx{Lane: lane, EXEC: pre.EXEC, Cin: cin>>uint(lane)&1 != 0}
		for i, so := range srcOps {
			v := pre.ReadLane(so, srcRoles[i].Bits, lane)
			if so.Abs || so.Neg {
				if !srcRoles[i].Float {
					x.Unsupported = "input modifier on integer operand"
					return
				}
				v = modAbsNeg(v, srcRoles[i].Bits, so)
				c.Mod[i] = so.Abs
			}
			if sdwa {
				// 13-40: SRCn_SEL selects a byte / word of the operand, zero-extended
				v = sdwaSel(v, in.Mods[fmt.Sprintf("src%d_sel", i)])
			}
			c.S[i] = v
		}
		if dOp != nil {
			c.D0 = pre.ReadLane(*dOp, dRole.Bits, lane)
		}
		e.V(&c)
		if sdwa && c.WD {
			// 13-40: DST_SEL places the result, DST_UNUSED decides the other bits
			un := in.Mods["dst_unused"]
			if e.SDWAQuirk == "pad-always" {
				un = "UNUSED_PAD"
			}
			c.D = sdwaDst(uint32(c.D0), uint32(c.D), in.Mods["dst_sel"], un)
			if e.SDWAQuirk == "sext-fills-low-bits" && un == "UNUSED_SEXT" {
				sh, w := sdwaField(in.Mods["dst_sel"])
				if w < 32 && uint32(c.D)>>(sh+w-1)&1 != 0 {
					c.D = uint64(uint32(c.D) | ^(uint32(maskN(w)) << sh))
				}
			}
			c.Alt = nil
		}
		if c.WD {
			vals := append([]uint64{c.D}, c.Alt...)
			if omod != 1 || clamp {
				var nv []uint64
				for _, v := range vals {
					nv = append(nv, outMod(v, dRole.Bits, omod, clamp)...)
				}
				if c.NaNOK && clamp {
					c.AnyD = true // clamp of a NaN depends on MODE.DX10_CLAMP
				}
				vals = nv
			}
			post.WriteLane(*dOp, dRole.Bits, lane, vals[0])
			if len(vals) > 1 || c.NaNOK || c.AnyD {
				o, b, l := *dOp, dRole.Bits, lane
				alts := vals
				nanOK, anyD, nb := c.NaNOK, c.AnyD, c.NaNBits
				x.locs = append(x.locs, loc{"vdst",
					func(s *State) uint64 { return s.ReadLane(o, b, l) },
					func(s *State, v uint64) { s.WriteLane(o, b, l, v) },
					func(v uint64) bool {
						if anyD {
							return true
						}
						for _, a := range alts {
							if a == v {
								return true
							}
						}
						if nanOK {
							if nb == 64 {
								return isNaN64(v)
							}
							return isNaN32(uint32(v))
						}
						return false
					}})
			}
		}
		if c.WC {
			wroteC = true
			if c.C {
				cmask |= 1 << uint(lane)
			}
			if c.AnyC {
				cany |= 1 << uint(lane)
			}
		}
	}
	if cOp != nil && (wroteC || pre.EXEC == 0) {
		// Mask destinations: active lanes get the result. The manual does not say
		// what inactive lanes' bits become: zero (as the hardware does) and
		// "unchanged" are both admitted.
		old := pre.ReadScalar(*cOp, 64)
		post.WriteScalar(*cOp, 64, cmask&pre.EXEC)
		o := *cOp
		exec := pre.EXEC
		want := cmask
		x.locs = append(x.locs, loc{"mask",
			func(s *State) uint64 { return s.ReadScalar(o, 64) },
			func(s *State, v uint64) { s.WriteScalar(o, 64, v) },
			func(v uint64) bool {
				if (v^want)&exec&^cany != 0 {
					return false
				}
				return v&^exec&^old == 0
			}})
		if e.Cmpx {
			post.EXEC = cmask & pre.EXEC
			x.locs = append(x.locs, loc{"exec",
				func(s *State) uint64 { return s.EXEC },
				func(s *State, v uint64) { s.EXEC = v },
				func(v uint64) bool { return (v^want)&exec&^cany == 0 && v&^exec == 0 }})
		}
	}
}

func sdwaField(sel string) (shift, width uint) {
	switch sel {
	case "BYTE_0":
		return 0, 8
	case "BYTE_1":
		return 8, 8
	case "BYTE_2":
		return 16, 8
	case "BYTE_3":
		return 24, 8
	case "WORD_0":
		return 0, 16
	case "WORD_1":
		return 16, 16
	}
	return 0, 32
}

func sdwaSel(v uint64, sel string) uint64 {
	sh, w := sdwaField(sel)
	return (uint64(uint32(v)) >> sh) & maskN(w)
}

func sdwaDst(old, val uint32, sel, unused string) uint64 {
	sh, w := sdwaField(sel)
	if w == 32 {
		return uint64(val)
	}
	m := uint32(maskN(w)) << sh
	placed := (val << sh) & m
	switch unused {
	case "UNUSED_PRESERVE":
		return uint64(old&^m | placed)
	case "UNUSED_SEXT":
		// sign-extend the upper bits, pad the lower bits with 0
		if placed>>(sh+w-1)&1 != 0 && sh+w < 32 {
			placed |= ^uint32(0) << (sh + w)
		}
		return uint64(placed)
	}
	return uint64(placed)
}

func le(b []byte) uint64 {
	var buf [8]byte
	copy(buf[:], b)
	return binary.LittleEndian.Uint64(buf[:])
}

func execMem(x *Expect, in *Instr, e *Entry, pre, post *State) {
	m := e.M
	switch m.Kind {
	case "sload":
		base := pre.ReadScalar(in.Ops[1], 64)
		off := pre.ReadScalar(in.Ops[2], 32)
		addr := (base + off) &^ 3
		if m.NoAlign {
			addr = base + off
		}
		data, ok := pre.Mem.Read(addr, m.Bytes)
		if !ok {
			x.Unsupported = "unmapped address"
			return
		}
		d := in.Ops[0]
		for i := 0; i < m.Bytes/4; i++ {
			w := binary.LittleEndian.Uint32(data[4*i:])
			switch d.Kind {
			case KSGPR:
				post.S[d.Idx+i] = w
			case KVCC:
				post.WriteScalar(Operand{Kind: []OpKind{KVCCLo, KVCCHi}[i]}, 32, uint64(w))
			default:
				post.WriteScalar(d, 32, uint64(w))
			}
		}
	case "dsread", "dsread2", "dswrite", "dswrite2":
		for lane := 0; lane < NumLanes; lane++ {
			if pre.EXEC>>uint(lane)&1 == 0 {
				continue
			}
			switch m.Kind {
			case "dsread":
				a := uint32(pre.ReadLane(in.Ops[1], 32, lane)) + uint32(in.Mod("offset", 0))
				if m.IgnoreOffset {
					a = uint32(pre.ReadLane(in.Ops[1], 32, lane))
				}
				if int(a)+m.Bytes > len(pre.LDS) {
					x.Unsupported = "LDS address out of range"
					return
				}
				writeLoad(post, in.Ops[0], lane, pre.LDS[a:int(a)+m.Bytes], m)
			case "dsread2":
				if in.Mod("offset0", 0) == in.Mod("offset1", 0) {
					x.Unsupported = "read2 with equal offsets: 10-7 says only one access happens"
					return
				}
				base := uint32(pre.ReadLane(in.Ops[1], 32, lane))
				for k, name := range []string{"offset0", "offset1"} {
					a := base + uint32(in.Mod(name, 0))*uint32(m.Mul)
					if int(a)+m.Bytes > len(pre.LDS) {
						x.Unsupported = "LDS address out of range"
						return
					}
					for w := 0; w < m.Bytes/4; w++ {
						post.SetVreg(lane, in.Ops[0].Idx+k*m.Bytes/4+w, binary.LittleEndian.Uint32(pre.LDS[int(a)+4*w:]))
					}
				}
			case "dswrite":
				a := uint32(pre.ReadLane(in.Ops[0], 32, lane)) + uint32(in.Mod("offset", 0))
				if int(a)+m.Bytes > len(pre.LDS) {
					x.Unsupported = "LDS address out of range"
					return
				}
				storeData(post.LDS[a:int(a)+m.Bytes], pre, in.Ops[1], lane)
			case "dswrite2":
				if in.Mod("offset0", 0) == in.Mod("offset1", 0) {
					x.Unsupported = "write2 with equal offsets: 10-7 says only one access happens (of DATA0), 13-45 writes both"
					return
				}
				base := uint32(pre.ReadLane(in.Ops[0], 32, lane))
				for k, name := range []string{"offset0", "offset1"} {
					a := base + uint32(in.Mod(name, 0))*uint32(m.Mul)
					if int(a)+m.Bytes > len(pre.LDS) {
						x.Unsupported = "LDS address out of range"
						return
					}
					storeData(post.LDS[a:int(a)+m.Bytes], pre, in.Ops[1+k], lane)
				}
			}
		}
	case "flatload", "flatstore":
		ai, di := 1, 0
		if m.Kind == "flatstore" {
			ai, di = 0, 1
		}
		off := in.Mod("offset", 0)
		var sbase uint64
		saddr := false
		if last := in.Ops[len(in.Ops)-1]; len(in.Ops) == 3 && last.Kind == KSGPR {
			saddr = true
			sbase = pre.ReadScalar(last, 64)
		}
		if m.SaddrS0 && !saddr {
			saddr = true
			sbase = uint64(pre.S[0]) | uint64(pre.S[1])<<32
		}
		for lane := 0; lane < NumLanes; lane++ {
			if pre.EXEC>>uint(lane)&1 == 0 {
				continue
			}
			var a uint64
			if saddr {
				a = sbase + uint64(uint32(pre.ReadLane(in.Ops[ai], 32, lane))) + uint64(off)
			} else {
				a = pre.ReadLane(in.Ops[ai], 64, lane) + uint64(off)
			}
			if m.Kind == "flatload" {
				data, ok := pre.Mem.Read(a, m.Bytes)
				if !ok {
					x.Unsupported = "unmapped address"
					return
				}
				writeLoad(post, in.Ops[di], lane, data, m)
			} else {
				buf := make([]byte, m.Bytes)
				storeData(buf, pre, in.Ops[di], lane)
				if !post.Mem.Write(a, buf) {
					x.Unsupported = "unmapped address"
					return
				}
			}
		}
	}
}

func writeLoad(post *State, d Operand, lane int, data []byte, m *MemOp) {
	if m.Bytes < 4 {
		v := uint32(le(data))
		if m.Signed {
			sh := uint(32 - 8*m.Bytes)
			v = uint32(int32(v<<sh) >> sh)
		}
		post.SetVreg(lane, d.Idx, v)
		return
	}
	for w := 0; w < m.Bytes/4; w++ {
		post.SetVreg(lane, d.Idx+w, binary.LittleEndian.Uint32(data[4*w:]))
	}
}

func storeData(dst []byte, pre *State, src Operand, lane int) {
	var buf [16]byte
	n := (len(dst) + 3) / 4
	for w := 0; w < n; w++ {
		binary.LittleEndian.PutUint32(buf[4*w:], pre.Vreg(lane, src.Idx+w))
	}
	copy(dst, buf[:len(dst)])
}
