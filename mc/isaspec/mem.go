package isaspec

// MemOp describes a memory instruction (manual chapters 7, 9, 10, 12, 13).
type MemOp struct {
	Kind   string // sload, dsread, dswrite, dsread2, dswrite2, flatload, flatstore
	Bytes  int    // bytes per element moved
	Signed bool   // sign-extend sub-dword loads
	Mul    int    // read2/write2: offset unit in bytes (element size, x64 for st64 forms)
	// deviations (only used by deviation models)
	NoAlign      bool // SMEM: the two low address bits are not ignored
	IgnoreOffset bool // DS: the instruction offset is not added
	SaddrS0      bool // FLAT: a zero SADDR field is taken as the scalar base s[0:1], the address VGPR as a 32-bit offset
}

func memEntry(name, fmtName string, class Class, p, page string, m MemOp) *Entry {
	e := &Entry{Name: name, Fmt: fmtName, Class: class, Pat: pat(p), M: &m, Page: page}
	reg(e)
	return e
}

func init() {
	// SMEM 12-52: m_addr = (SGPR[SBASE] + m_offset) & ~3
	for _, x := range []struct {
		n string
		d int
	}{{"s_load_dword", 1}, {"s_load_dwordx2", 2}, {"s_load_dwordx4", 4}, {"s_load_dwordx8", 8}, {"s_load_dwordx16", 16}} {
		memEntry(x.n, "SMEM", CSMEM, "D,A64,S32", "12-52", MemOp{Kind: "sload", Bytes: 4 * x.d})
	}
	// DS 13-45..13-49, 10-7
	ds := func(n, kind string, bytes int, signed bool, mul int, p string) {
		memEntry(n, "DS", CDS, p, "13-45..13-49", MemOp{Kind: kind, Bytes: bytes, Signed: signed, Mul: mul})
	}
	ds("ds_write_b8", "dswrite", 1, false, 0, "A32,S32")
	ds("ds_write_b16", "dswrite", 2, false, 0, "A32,S32")
	ds("ds_write_b32", "dswrite", 4, false, 0, "A32,S32")
	ds("ds_write_b64", "dswrite", 8, false, 0, "A32,S64")
	ds("ds_write_b96", "dswrite", 12, false, 0, "A32,S96")
	ds("ds_write_b128", "dswrite", 16, false, 0, "A32,S128")
	ds("ds_write2_b32", "dswrite2", 4, false, 4, "A32,S32,S32")
	ds("ds_write2st64_b32", "dswrite2", 4, false, 4*64, "A32,S32,S32")
	ds("ds_write2_b64", "dswrite2", 8, false, 8, "A32,S64,S64")
	ds("ds_write2st64_b64", "dswrite2", 8, false, 8*64, "A32,S64,S64")
	ds("ds_read_u8", "dsread", 1, false, 0, "D32,A32")
	ds("ds_read_i8", "dsread", 1, true, 0, "D32,A32")
	ds("ds_read_u16", "dsread", 2, false, 0, "D32,A32")
	ds("ds_read_i16", "dsread", 2, true, 0, "D32,A32")
	ds("ds_read_b32", "dsread", 4, false, 0, "D32,A32")
	ds("ds_read_b64", "dsread", 8, false, 0, "D64,A32")
	ds("ds_read_b96", "dsread", 12, false, 0, "D96,A32")
	ds("ds_read_b128", "dsread", 16, false, 0, "D128,A32")
	ds("ds_read2_b32", "dsread2", 4, false, 4, "D64,A32")
	ds("ds_read2st64_b32", "dsread2", 4, false, 4*64, "D64,A32")
	ds("ds_read2_b64", "dsread2", 8, false, 8, "D128,A32")
	ds("ds_read2st64_b64", "dsread2", 8, false, 8*64, "D128,A32")
	// FLAT 13-63, 12-? : per-lane 64-bit address in a VGPR pair
	fl := func(n, kind string, bytes int, signed bool, p string) {
		memEntry(n, "FLAT", CFLAT, p, "13-63", MemOp{Kind: kind, Bytes: bytes, Signed: signed})
		g := memEntry("global_"+n[5:], "FLAT", CFLAT, p+",X", "cdna3 FLAT tables (name only)", MemOp{Kind: kind, Bytes: bytes, Signed: signed})
		g.Arch = CDNA3
	}
	fl("flat_load_ubyte", "flatload", 1, false, "D32,A64")
	fl("flat_load_sbyte", "flatload", 1, true, "D32,A64")
	fl("flat_load_ushort", "flatload", 2, false, "D32,A64")
	fl("flat_load_sshort", "flatload", 2, true, "D32,A64")
	fl("flat_load_dword", "flatload", 4, false, "D32,A64")
	fl("flat_load_dwordx2", "flatload", 8, false, "D64,A64")
	fl("flat_load_dwordx3", "flatload", 12, false, "D96,A64")
	fl("flat_load_dwordx4", "flatload", 16, false, "D128,A64")
	fl("flat_store_byte", "flatstore", 1, false, "A64,S32")
	fl("flat_store_short", "flatstore", 2, false, "A64,S32")
	fl("flat_store_dword", "flatstore", 4, false, "A64,S32")
	fl("flat_store_dwordx2", "flatstore", 8, false, "A64,S64")
	fl("flat_store_dwordx3", "flatstore", 12, false, "A64,S96")
	fl("flat_store_dwordx4", "flatstore", 16, false, "A64,S128")
}
