// Package isaspec is E5's executable ISA specification: an independent
// transcription of docs/gcn3-instruction-set-architecture.pdf (chapters 5, 6,
// 12, 13) into boring pure Go functions, plus the assembly-text view of an
// instruction (so that the specification never looks at the decoder's
// insts.Inst) and the table of encodings produced by llvm-mc at authoring time.
package isaspec

import (
	"fmt"
	"math"
	"strconv"
	"strings"
)

// OpKind is the kind of an assembly operand.
type OpKind int

// Operand kinds.
const (
	KNone OpKind = iota
	KSGPR
	KVGPR
	KVCC
	KVCCLo
	KVCCHi
	KEXEC
	KEXECLo
	KEXECHi
	KM0
	KSCC
	KVCCZ
	KEXECZ
	KInt   // inline integer constant (decimal in llvm's canonical text)
	KLit   // 32-bit literal (hexadecimal in llvm's canonical text)
	KFloat // inline float constant
	KOff   // "off"
)

// Operand is one parsed assembly operand.
type Operand struct {
	Kind  OpKind
	Idx   int // first register index
	Count int // number of consecutive registers (1 if not a range)
	Int   int64
	F     float64
	Neg   bool
	Abs   bool
	Text  string
}

// IsReg reports whether the operand names architectural state.
func (o Operand) IsReg() bool { return o.Kind >= KSGPR && o.Kind <= KEXECZ }

// Instr is the assembly-text view of one instruction.
type Instr struct {
	Text  string
	Mnem  string // full mnemonic, e.g. v_add_f32_e64
	Base  string // without _e32/_e64/_sdwa
	Enc   string // "", "e32", "e64", "sdwa"
	Ops   []Operand
	Mods  map[string]string
	Bytes []byte
}

// Size is the encoded size in bytes.
func (in *Instr) Size() int { return len(in.Bytes) }

// Mod returns an integer modifier (offset:4 ...), def if absent.
func (in *Instr) Mod(name string, def int64) int64 {
	s, ok := in.Mods[name]
	if !ok {
		return def
	}
	v, err := strconv.ParseInt(s, 0, 64)
	if err != nil {
		u, err2 := strconv.ParseUint(s, 0, 64)
		if err2 != nil {
			panic("bad modifier " + name + ":" + s)
		}
		return int64(u)
	}
	return v
}

// Has reports whether a flag modifier (clamp, glc ...) is present.
func (in *Instr) Has(name string) bool { _, ok := in.Mods[name]; return ok }

func parseReg(s string) (Operand, bool) {
	o := Operand{Count: 1, Text: s}
	switch s {
	case "vcc":
		o.Kind, o.Count = KVCC, 2
		return o, true
	case "vcc_lo":
		o.Kind = KVCCLo
		return o, true
	case "vcc_hi":
		o.Kind = KVCCHi
		return o, true
	case "exec":
		o.Kind, o.Count = KEXEC, 2
		return o, true
	case "exec_lo":
		o.Kind = KEXECLo
		return o, true
	case "exec_hi":
		o.Kind = KEXECHi
		return o, true
	case "m0":
		o.Kind = KM0
		return o, true
	case "src_scc", "scc":
		o.Kind = KSCC
		return o, true
	case "src_vccz", "vccz":
		o.Kind = KVCCZ
		return o, true
	case "src_execz", "execz":
		o.Kind = KEXECZ
		return o, true
	case "off":
		o.Kind = KOff
		return o, true
	}
	if len(s) >= 2 && (s[0] == 's' || s[0] == 'v') {
		k := KSGPR
		if s[0] == 'v' {
			k = KVGPR
		}
		rest := s[1:]
		if rest[0] == '[' && strings.HasSuffix(rest, "]") {
			parts := strings.Split(rest[1:len(rest)-1], ":")
			if len(parts) != 2 {
				return o, false
			}
			lo, e1 := strconv.Atoi(parts[0])
			hi, e2 := strconv.Atoi(parts[1])
			if e1 != nil || e2 != nil || hi < lo {
				return o, false
			}
			o.Kind, o.Idx, o.Count = k, lo, hi-lo+1
			return o, true
		}
		n, err := strconv.Atoi(rest)
		if err != nil {
			return o, false
		}
		o.Kind, o.Idx = k, n
		return o, true
	}
	return o, false
}

func parseOperand(s string) (Operand, error) {
	orig := s
	var neg, abs bool
	if strings.HasPrefix(s, "-|") || strings.HasPrefix(s, "-v") || strings.HasPrefix(s, "-s") {
		neg = true
		s = s[1:]
	}
	if strings.HasPrefix(s, "|") && strings.HasSuffix(s, "|") {
		abs = true
		s = s[1 : len(s)-1]
	}
	if strings.HasPrefix(s, "neg(") && strings.HasSuffix(s, ")") {
		neg = true
		s = s[4 : len(s)-1]
	}
	if strings.HasPrefix(s, "abs(") && strings.HasSuffix(s, ")") {
		abs = true
		s = s[4 : len(s)-1]
	}
	if o, ok := parseReg(s); ok {
		o.Neg, o.Abs, o.Text = neg, abs, orig
		return o, nil
	}
	o := Operand{Count: 1, Text: orig, Neg: neg, Abs: abs}
	if strings.HasPrefix(s, "0x") {
		v, err := strconv.ParseUint(s[2:], 16, 64)
		if err != nil {
			return o, err
		}
		o.Kind, o.Int = KLit, int64(v)
		return o, nil
	}
	if strings.ContainsAny(s, ".") {
		f, err := strconv.ParseFloat(s, 64)
		if err != nil {
			return o, err
		}
		o.Kind, o.F = KFloat, f
		return o, nil
	}
	v, err := strconv.ParseInt(s, 10, 64)
	if err != nil {
		return o, fmt.Errorf("operand %q: %v", orig, err)
	}
	o.Kind, o.Int = KInt, v
	return o, nil
}

// Parse parses llvm-mc's canonical text of one instruction.
func Parse(text string) (*Instr, error) {
	in := &Instr{Text: text, Mods: map[string]string{}}
	t := strings.TrimSpace(text)
	sp := strings.IndexAny(t, " \t")
	if sp < 0 {
		in.Mnem = t
		t = ""
	} else {
		in.Mnem = t[:sp]
		t = strings.TrimSpace(t[sp+1:])
	}
	in.Base = in.Mnem
	for _, suf := range []string{"_e32", "_e64", "_sdwa"} {
		if strings.HasSuffix(in.Mnem, suf) {
			in.Base = strings.TrimSuffix(in.Mnem, suf)
			in.Enc = suf[1:]
		}
	}
	if t == "" {
		return in, nil
	}
	// s_waitcnt has a functional syntax; keep it as one modifier
	if in.Base == "s_waitcnt" {
		in.Mods["waitcnt"] = t
		return in, nil
	}
	// operands are comma separated; after the last operand modifiers are
	// space separated.
	parts := strings.Split(t, ",")
	for i, p := range parts {
		p = strings.TrimSpace(p)
		if i == len(parts)-1 {
			fields := strings.Fields(p)
			if len(fields) == 0 {
				break
			}
			start := 1
			if isModifier(fields[0]) {
				start = 0
			} else {
				p = fields[0]
			}
			for _, f := range fields[start:] {
				if k := strings.IndexByte(f, ':'); k >= 0 {
					in.Mods[f[:k]] = f[k+1:]
				} else {
					in.Mods[f] = ""
				}
			}
			if start == 0 {
				break
			}
		}
		o, err := parseOperand(p)
		if err != nil {
			return nil, fmt.Errorf("%q: %v", text, err)
		}
		in.Ops = append(in.Ops, o)
	}
	return in, nil
}

func isModifier(f string) bool {
	switch f {
	case "clamp", "glc", "slc", "gds", "tfe":
		return true
	}
	for _, p := range []string{"offset", "mul:", "div:", "dst_sel:", "dst_unused:", "src0_sel:", "src1_sel:"} {
		if strings.HasPrefix(f, p) {
			return true
		}
	}
	return false
}

// ConstValue is the value of a constant operand when read with the given
// width in bits (ISA manual 5.2 / 6.2.1 and table 6.1): inline integers are
// sign-extended, inline floats are the IEEE value of the operand's width,
// 32-bit literals are only defined here for 32-bit operands.
func ConstValue(o Operand, bits int) uint64 {
	switch o.Kind {
	case KInt:
		if bits == 64 {
			return uint64(o.Int)
		}
		return uint64(uint32(int32(o.Int)))
	case KLit:
		return uint64(uint32(o.Int))
	case KFloat:
		f := o.F
		if math.Abs(f-0.15915494) < 1e-6 {
			// 1/(2*PI): 0x3e22f983 as single, 0x3fc45f306dc9c882 as double
			if bits == 64 {
				return 0x3fc45f306dc9c882
			}
			return 0x3e22f983
		}
		if bits == 64 {
			return math.Float64bits(f)
		}
		return uint64(math.Float32bits(float32(f)))
	}
	panic("ConstValue of non-constant " + o.Text)
}
