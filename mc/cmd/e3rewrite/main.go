// e3rewrite instruments Go packages for the E3 controlled scheduler.
//
//	e3rewrite [-modfile f] [-tags t] -overlay-dir d -overlay-json j [-extra importpath=file]... pkg...
//	    writes instrumented copies under d and an overlay file for `go build -overlay`
//	e3rewrite [-modfile f] -src-root s -dest-root d pkg...
//	    writes instrumented copies of files below s to the same relative path below d
//
// Exit status 2 on anything it cannot handle (infrastructure error).
package main

import (
	"bytes"
	"encoding/json"
	"flag"
	"fmt"
	"io"
	"os"
	"os/exec"
	"path/filepath"
	"strings"

	"verif/mc/rewrite"
)

type multi []string

func (m *multi) String() string     { return strings.Join(*m, ",") }
func (m *multi) Set(s string) error { *m = append(*m, s); return nil }

func die(format string, a ...any) {
	fmt.Fprintf(os.Stderr, "e3rewrite: "+format+"\n", a...)
	os.Exit(2)
}

type listPkg struct {
	ImportPath string
	Dir        string
	GoFiles    []string
	CgoFiles   []string
	Export     string
	Error      *struct{ Err string }
}

func main() {
	modfile := flag.String("modfile", "", "go.mod to resolve packages with")
	tags := flag.String("tags", "", "build tags")
	ovDir := flag.String("overlay-dir", "", "directory for instrumented copies (overlay mode)")
	ovJSON := flag.String("overlay-json", "", "overlay file to write (overlay mode)")
	srcRoot := flag.String("src-root", "", "source tree root (tree mode)")
	destRoot := flag.String("dest-root", "", "destination tree root (tree mode)")
	var extra multi
	flag.Var(&extra, "extra", "importpath=file: add file to the package through the overlay")
	flag.Parse()
	pkgs := flag.Args()
	if len(pkgs) == 0 {
		die("no packages")
	}
	args := []string{"list", "-e", "-export", "-deps", "-json=ImportPath,Dir,GoFiles,CgoFiles,Export,Error"}
	if *modfile != "" {
		args = append(args, "-modfile="+*modfile)
	}
	if *tags != "" {
		args = append(args, "-tags", *tags)
	}
	args = append(args, pkgs...)
	cmd := exec.Command("go", args...)
	var stderr bytes.Buffer
	cmd.Stderr = &stderr
	out, err := cmd.Output()
	if err != nil {
		die("go %s: %v\n%s", strings.Join(args, " "), err, stderr.String())
	}
	exports := map[string]string{}
	byPath := map[string]*listPkg{}
	dec := json.NewDecoder(bytes.NewReader(out))
	for {
		var p listPkg
		if err := dec.Decode(&p); err == io.EOF {
			break
		} else if err != nil {
			die("go list output: %v", err)
		}
		if p.Error != nil {
			die("package %s: %s", p.ImportPath, p.Error.Err)
		}
		exports[p.ImportPath] = p.Export
		q := p
		byPath[p.ImportPath] = &q
	}
	rw := rewrite.New(exports)
	overlay := map[string]string{}
	var total rewrite.Stats
	for _, ip := range pkgs {
		p := byPath[ip]
		if p == nil {
			die("package %s not listed", ip)
		}
		if len(p.CgoFiles) > 0 {
			die("package %s uses cgo", ip)
		}
		res, st, err := rw.Rewrite(rewrite.Package{ImportPath: ip, Dir: p.Dir, GoFiles: p.GoFiles})
		if err != nil {
			die("%s: %v", ip, err)
		}
		total.Add(st)
		for _, r := range res {
			var dest string
			if *ovDir != "" {
				dest = filepath.Join(*ovDir, ip, filepath.Base(r.Path))
			} else {
				rel, err := filepath.Rel(*srcRoot, r.Path)
				if err != nil || strings.HasPrefix(rel, "..") {
					die("%s is not below %s", r.Path, *srcRoot)
				}
				dest = filepath.Join(*destRoot, rel)
			}
			if r.Content == nil {
				if *ovDir != "" {
					os.Remove(dest)
				} else {
					// restore the pristine file
					data, err := os.ReadFile(r.Path)
					if err != nil {
						die("%v", err)
					}
					writeIfChanged(dest, data)
				}
				continue
			}
			writeIfChanged(dest, r.Content)
			if *ovDir != "" {
				overlay[r.Path] = dest
			}
		}
		fmt.Printf("e3rewrite: %-55s %s\n", ip, st)
	}
	for _, e := range extra {
		ip, file, ok := strings.Cut(e, "=")
		p := byPath[ip]
		if !ok || p == nil {
			die("bad -extra %s", e)
		}
		overlay[filepath.Join(p.Dir, "zz_e3_"+strings.TrimSuffix(filepath.Base(file), ".txt"))] = file
	}
	if *ovJSON != "" {
		data, _ := json.MarshalIndent(map[string]any{"Replace": overlay}, "", " ")
		writeIfChanged(*ovJSON, data)
	}
	fmt.Printf("e3rewrite: total %s\n", total)
}

func writeIfChanged(path string, data []byte) {
	old, err := os.ReadFile(path)
	if err == nil && bytes.Equal(old, data) {
		return
	}
	if err := os.MkdirAll(filepath.Dir(path), 0o755); err != nil {
		die("%v", err)
	}
	os.Chmod(path, 0o644)
	if err := os.WriteFile(path, data, 0o644); err != nil {
		die("%v", err)
	}
}
