// Package world is E4: it closes one or more real akita components under the
// real sim.SerialEngine with an explorer-driven environment. Nothing moves on
// a wire by itself: the environment agent (a secondary ticking component, so
// it runs after the components' primary tick events of the same cycle) decides
// per cycle, by asking the explorer, which message is taken from an outgoing
// port buffer, which pending answer is delivered, and when.
package world

import (
	"fmt"

	"github.com/sarchlab/akita/v4/sim"

	"verif/mc/explore"
)

type horizonHit struct{ why string }

// World owns the engine, the environment agent and the wires.
type World struct {
	X       *explore.Exec
	Engine  *sim.SerialEngine
	Freq    sim.Freq
	Env     *sim.TickingComponent
	Horizon int // max cycles
	MaxEvts int // max engine events
	evts    int
	Step    func() bool // scenario step, run once per environment tick; returns true while the environment still has work pending
	wires   []*Wire
	Quiet   bool // set when engine ran out of events
}

type ticker struct{ w *World }

func (t ticker) Tick() bool {
	w := t.w
	if w.Cycle() > w.Horizon {
		panic(horizonHit{"cycle horizon"})
	}
	return w.Step()
}

type evtHook struct{ w *World }

func (h evtHook) Func(ctx sim.HookCtx) {
	if ctx.Pos == sim.HookPosBeforeEvent {
		h.w.evts++
		h.w.X.Steps++
		if h.w.evts > h.w.MaxEvts {
			panic(horizonHit{"event horizon"})
		}
	}
}

// New makes a world. horizon is in cycles at 1 GHz.
func New(x *explore.Exec, horizon int) *World {
	w := &World{X: x, Engine: sim.NewSerialEngine(), Freq: 1 * sim.GHz, Horizon: horizon, MaxEvts: horizon * 64}
	w.Env = sim.NewSecondaryTickingComponent("Env", w.Engine, w.Freq, ticker{w})
	w.Engine.AcceptHook(evtHook{w})
	return w
}

// Cycle is the current cycle number.
func (w *World) Cycle() int { return int(w.Freq.Cycle(w.Engine.CurrentTime())) }

// Run starts the environment and runs the engine to quiescence or horizon.
// It returns false when a horizon was hit (execution marked capped).
func (w *World) Run() (quiescent bool) {
	defer func() {
		if r := recover(); r != nil {
			if _, ok := r.(horizonHit); ok {
				w.X.Capped = true
				quiescent = false
				return
			}
			panic(r)
		}
	}()
	w.Env.TickLater()
	w.Engine.Run()
	w.Quiet = true
	return true
}

// Wire is a passive sim.Connection: it only wakes the environment.
type Wire struct {
	sim.HookableBase
	w     *World
	name  string
	Ports []sim.Port
}

// NewWire plugs the given component ports into a passive connection.
func (w *World) NewWire(name string, ports ...sim.Port) *Wire {
	c := &Wire{w: w, name: name}
	for _, p := range ports {
		c.PlugIn(p)
	}
	w.wires = append(w.wires, c)
	return c
}

func (c *Wire) Name() string { return c.name }
func (c *Wire) PlugIn(p sim.Port) {
	p.SetConnection(c)
	c.Ports = append(c.Ports, p)
}
func (c *Wire) Unplug(p sim.Port)          {}
func (c *Wire) NotifyAvailable(p sim.Port) { c.w.Env.TickLater() }
func (c *Wire) NotifySend()                { c.w.Env.TickLater() }

// ---------------------------------------------------------------------------
// Building blocks for scenario steps.

// Sink drains the outgoing buffer of a component port. Per message the
// explorer may stall the wire (back-pressure) for StallAlphabet[k-1] cycles.
type Sink struct {
	W             *World
	Port          sim.Port
	Tag           string
	StallAlphabet []int // e.g. {1,4}
	stalledUntil  int
	Handle        func(m sim.Msg)
	NoChoice      bool
	// Every > 0: a slow consumer, it takes at most one message per Every
	// cycles (a configuration of the environment, not a choice), so that the
	// component's port buffer and its internal queues fill up behind it.
	Every    int
	lastTake int
	took     bool
}

// Step takes up to max messages; returns true if the sink is stalled (pending work).
func (s *Sink) Step(max int) bool {
	w := s.W
	for i := 0; i < max; i++ {
		if w.Cycle() < s.stalledUntil {
			return s.Port.PeekOutgoing() != nil
		}
		m := s.Port.PeekOutgoing()
		if m == nil {
			return false
		}
		if s.Every > 0 && s.took && w.Cycle() < s.lastTake+s.Every {
			return true
		}
		if !s.NoChoice && len(s.StallAlphabet) > 0 && w.X.CanDeviate() {
			c := w.X.Choose(1+len(s.StallAlphabet), "take:"+s.Tag)
			if c > 0 {
				s.stalledUntil = w.Cycle() + s.StallAlphabet[c-1]
				w.X.Logf("[%d] env stalls %s for %d", w.Cycle(), s.Tag, s.StallAlphabet[c-1])
				return true
			}
		}
		m = s.Port.RetrieveOutgoing()
		s.lastTake, s.took = w.Cycle(), true
		w.X.Logf("[%d] %s -> env: %s", w.Cycle(), s.Tag, Describe(m))
		s.Handle(m)
	}
	return s.Port.PeekOutgoing() != nil
}

// Pending is one message the environment owes to a component port.
type Pending struct {
	Msg   sim.Msg
	Ready int // cycle from which it may be delivered
	Seq   int
}

// Feeder delivers environment messages into one component port. Messages are
// delivered in FIFO order of Add by default; the explorer may pick any ready
// message instead (reorder) when Reorder is set, and each message gets a delay
// from DelayAlphabet at Add time when the caller asks for it.
type Feeder struct {
	// Burst: the environment offers up to Burst further ready messages in the same cycle (a banked memory or a network that
	// answers more than once per cycle); the component's incoming buffer decides how many of them it takes
	Burst int
	W             *World
	Port          sim.Port
	Tag           string
	Reorder       bool
	DelayAlphabet []int // extra cycles, alternatives to 0
	Q             []*Pending
	seq           int
	OnDeliver     func(m sim.Msg)
}

// Add queues a message. choose=true asks the explorer for a delay.
func (f *Feeder) Add(m sim.Msg, choose bool) {
	d := 0
	if choose && len(f.DelayAlphabet) > 0 && f.W.X.CanDeviate() {
		c := f.W.X.Choose(1+len(f.DelayAlphabet), "delay:"+f.Tag)
		if c > 0 {
			d = f.DelayAlphabet[c-1]
		}
	}
	f.seq++
	f.Q = append(f.Q, &Pending{Msg: m, Ready: f.W.Cycle() + 1 + d, Seq: f.seq})
}

// Step delivers up to max ready messages. Returns true while anything is pending.
func (f *Feeder) Step(max int) bool {
	w := f.W
	for i := 0; i < max+f.Burst; i++ {
		var ready []int
		for j, p := range f.Q {
			if p.Ready <= w.Cycle() {
				ready = append(ready, j)
			} else if !f.Reorder {
				break // strict FIFO: a not-yet-ready head blocks the rest
			}
		}
		if len(ready) == 0 {
			break
		}
		pick := 0
		// burst deliveries (i >= max) take the first ready message without a choice point: whether they happen at all is
		// decided by the component's port (a one-entry incoming buffer refuses them), so they cost nothing where they cannot occur
		if i < max && f.Reorder && len(ready) > 1 && w.X.CanDeviate() {
			pick = w.X.Choose(len(ready), "order:"+f.Tag)
		}
		j := ready[pick]
		p := f.Q[j]
		if err := f.Port.Deliver(p.Msg); err != nil {
			break // component's incoming buffer is full; retry next cycle
		}
		w.X.Logf("[%d] env -> %s: %s", w.Cycle(), f.Tag, Describe(p.Msg))
		f.Q = append(f.Q[:j], f.Q[j+1:]...)
		if f.OnDeliver != nil {
			f.OnDeliver(p.Msg)
		}
	}
	return len(f.Q) > 0
}

// Describe renders a message for traces.
func Describe(m sim.Msg) string {
	return fmt.Sprintf("%T id=%s %s->%s", m, m.Meta().ID, m.Meta().Src, m.Meta().Dst)
}

type sendHook struct{ f func(m sim.Msg) }

func (h sendHook) Func(ctx sim.HookCtx) {
	if ctx.Pos == sim.HookPosPortMsgSend {
		h.f(ctx.Item.(sim.Msg))
	}
}

// OnSend calls f at the instant the component pushes a message into the
// outgoing buffer of one of its ports (exact time of the component's action,
// before the environment takes the message off the wire).
func OnSend(p sim.Port, f func(m sim.Msg)) { p.AcceptHook(sendHook{f}) }

// FlushCtl drives the DiscardTransactions -> NotifyDone -> Restart ->
// NotifyDone protocol used by the command processor on ROBs and address
// translators. The flush is sent at cycle At (0 = never).
type FlushCtl struct {
	W            *World
	Port         sim.Port
	Name         sim.RemotePort
	At           int
	RestartDelay int
	Acks         int
	sent         bool
	feed         *Feeder
	sink         *Sink
	MkDiscard    func() sim.Msg
	MkRestart    func() sim.Msg
	OnRestarted  func()
	// At2 > 0: a second DiscardTransactions is sent At2 cycles after the first restart was acknowledged (the component is
	// then flushed from a non-initial state: already flushed and restarted once, serving later traffic)
	At2          int
	OnRestarted2 func()
	sent2        bool
	due2         int
}

// Active reports whether a flush has been sent and the restart not yet acknowledged.
func (f *FlushCtl) Active() bool { return f.sent && f.Acks < 2 || f.sent2 && f.Acks < 4 }

// WantAcks is the number of acknowledgements a complete run of the protocol produces.
func (f *FlushCtl) WantAcks() int {
	if f.At <= 0 {
		return 0
	}
	if f.At2 > 0 {
		return 4
	}
	return 2
}

// Step advances the protocol; returns true while work is pending.
func (f *FlushCtl) Step() bool {
	if f.At <= 0 {
		return false
	}
	if f.feed == nil {
		f.feed = &Feeder{W: f.W, Port: f.Port, Tag: "ctl"}
		f.sink = &Sink{W: f.W, Port: f.Port, Tag: "ctl", NoChoice: true}
		f.sink.Handle = func(m sim.Msg) {
			f.Acks++
			if f.Acks%2 == 1 {
				f.feed.Add(f.MkRestart(), false)
				f.feed.Q[len(f.feed.Q)-1].Ready += f.RestartDelay
			} else if f.Acks == 2 {
				f.due2 = f.W.Cycle() + f.At2
				if f.OnRestarted != nil {
					f.OnRestarted()
				}
			} else if f.Acks == 4 && f.OnRestarted2 != nil {
				f.OnRestarted2()
			}
		}
	}
	pending := false
	if !f.sent {
		if f.W.Cycle() >= f.At {
			f.sent = true
			f.feed.Add(f.MkDiscard(), false)
			f.feed.Q[len(f.feed.Q)-1].Ready = f.W.Cycle()
		}
		pending = true
	}
	if f.At2 > 0 && !f.sent2 {
		if f.Acks >= 2 && f.W.Cycle() >= f.due2 {
			f.sent2 = true
			f.feed.Add(f.MkDiscard(), false)
			f.feed.Q[len(f.feed.Q)-1].Ready = f.W.Cycle()
		}
		pending = true
	}
	pending = f.sink.Step(1) || pending
	pending = f.feed.Step(1) || pending
	return pending || f.Active()
}

type retrHook struct{ f func(m sim.Msg) }

func (h retrHook) Func(ctx sim.HookCtx) {
	if ctx.Pos == sim.HookPosPortMsgRetrieveIncoming {
		h.f(ctx.Item.(sim.Msg))
	}
}

// OnRetrieveIncoming calls f at the instant the component takes a message out
// of the incoming buffer of one of its ports (i.e. accepts it).
func OnRetrieveIncoming(p sim.Port, f func(m sim.Msg)) { p.AcceptHook(retrHook{f}) }
