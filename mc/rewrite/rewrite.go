// Package rewrite is the source-to-source instrumenter of E3. It rewrites the
// synchronisation constructs of Go packages into calls of verif/mc/sched (the
// controlled scheduler):
//
//	import "sync"            -> verif/mc/sched/ssync  (package name sync, same method sets)
//	import "sync/atomic"     -> verif/mc/sched/satomic
//	ch <- v                  -> sched.ChanSender(ch)(v)   (curried: T is inferred from the channel only)
//	<-ch / v, ok := <-ch     -> sched.ChanRecv(ch) / sched.ChanRecv2(ch)
//	close(ch), len(ch)       -> sched.ChanClose(ch), sched.ChanLen(ch)
//	select { ... }           -> switch sched.Select(hasDefault, cases...) { ... }
//	for v := range ch        -> for { v, ok := sched.ChanRecv2(ch); if !ok { break }; ... }
//	go f(a, b)               -> sched.Go("f", func() { f(a, b) })   (f, a, b evaluated first)
//	os.Exit / atexit.Exit / log.Fatal* -> sched.Exit / sched.LogFatal*
//	recover()                -> sched.Recover(recover())
//	debug.PrintStack, runtime.Gosched, time.Sleep -> sched.PrintStack, sched.Yield, sched.Sleep
//
// `chan T` types and make(chan T, n) stay: the real channel value is only an
// identity (and carries its capacity); it is never operated on. Anything that
// could block in the real runtime and is not handled is an error (the tool
// exits 2), never silently left in place.
package rewrite

import (
	"bytes"
	"fmt"
	"go/ast"
	"go/importer"
	"go/parser"
	"go/printer"
	"go/token"
	"go/types"
	"io"
	"os"
	"path/filepath"
	"reflect"
	"strconv"
	"strings"
)

const (
	schedPath  = "verif/mc/sched"
	schedName  = "e3sched"
	ssyncPath  = "verif/mc/sched/ssync"
	atomicPath = "verif/mc/sched/satomic"
)

// Package describes one package to instrument.
type Package struct {
	ImportPath string
	Dir        string
	GoFiles    []string
}

// Stats counts what was rewritten.
type Stats struct {
	Files, Sends, Recvs, Closes, Selects, Ranges, Gos, Exits, Recovers, SyncImports, AtomicImports, Misc int
}

func (s *Stats) Add(o Stats) {
	s.Files += o.Files
	s.Sends += o.Sends
	s.Recvs += o.Recvs
	s.Closes += o.Closes
	s.Selects += o.Selects
	s.Ranges += o.Ranges
	s.Gos += o.Gos
	s.Exits += o.Exits
	s.Recovers += o.Recovers
	s.SyncImports += o.SyncImports
	s.AtomicImports += o.AtomicImports
	s.Misc += o.Misc
}

func (s Stats) String() string {
	return fmt.Sprintf("files=%d sync-imports=%d atomic-imports=%d send=%d recv=%d close=%d select=%d range-chan=%d go=%d exit=%d recover=%d other=%d",
		s.Files, s.SyncImports, s.AtomicImports, s.Sends, s.Recvs, s.Closes, s.Selects, s.Ranges, s.Gos, s.Exits, s.Recovers, s.Misc)
}

// Result is one rewritten file.
type Result struct {
	Path    string // original path
	Content []byte // nil when unchanged
}

// Rewriter instruments packages.
type Rewriter struct {
	Fset    *token.FileSet
	Exports map[string]string // import path -> export data file (from `go list -export`)
	imp     types.Importer
}

// New builds a rewriter using compiler export data for imports.
func New(exports map[string]string) *Rewriter {
	r := &Rewriter{Fset: token.NewFileSet(), Exports: exports}
	r.imp = importer.ForCompiler(r.Fset, "gc", func(path string) (io.ReadCloser, error) {
		f, ok := exports[path]
		if !ok || f == "" {
			return nil, fmt.Errorf("no export data for %q", path)
		}
		return os.Open(f)
	})
	return r
}

type fileCtx struct {
	r       *Rewriter
	info    *types.Info
	file    *ast.File
	st      Stats
	errs    []string
	used    bool // sched package referenced
	counter int
}

func (c *fileCtx) errorf(n ast.Node, format string, a ...any) {
	c.errs = append(c.errs, fmt.Sprintf("%s: %s", c.r.Fset.Position(n.Pos()), fmt.Sprintf(format, a...)))
}

// Rewrite instruments one package; it returns the rewritten files.
func (r *Rewriter) Rewrite(p Package) ([]Result, Stats, error) {
	var files []*ast.File
	for _, name := range p.GoFiles {
		f, err := parser.ParseFile(r.Fset, filepath.Join(p.Dir, name), nil, parser.ParseComments)
		if err != nil {
			return nil, Stats{}, err
		}
		files = append(files, f)
	}
	info := &types.Info{Types: map[ast.Expr]types.TypeAndValue{}, Uses: map[*ast.Ident]types.Object{}, Defs: map[*ast.Ident]types.Object{}}
	var terrs []string
	conf := types.Config{Importer: r.imp, Error: func(err error) { terrs = append(terrs, err.Error()) }}
	_, _ = conf.Check(p.ImportPath, r.Fset, files, info)
	if len(terrs) > 0 {
		return nil, Stats{}, fmt.Errorf("type-checking %s failed (does it compile?): %s", p.ImportPath, strings.Join(terrs[:min(len(terrs), 5)], "; "))
	}
	var out []Result
	var total Stats
	var allErrs []string
	for i, f := range files {
		c := &fileCtx{r: r, info: info, file: f}
		c.rewriteImports()
		nf := c.rewrite(f).(*ast.File)
		c.verify(nf)
		allErrs = append(allErrs, c.errs...)
		path := filepath.Join(p.Dir, p.GoFiles[i])
		changed := c.st != Stats{}
		if !changed {
			out = append(out, Result{Path: path})
			continue
		}
		if c.used {
			addImport(nf, schedName, schedPath)
		}
		c.fixUnusedImports(nf)
		stripComments(nf)
		var buf bytes.Buffer
		fmt.Fprintf(&buf, "// Code generated by verif/mc/rewrite (E3 instrumentation) from %s. DO NOT EDIT.\n", path)
		cfg := printer.Config{Mode: printer.UseSpaces | printer.TabIndent | printer.SourcePos, Tabwidth: 8}
		if err := cfg.Fprint(&buf, r.Fset, nf); err != nil {
			return nil, total, err
		}
		c.st.Files = 1
		total.Add(c.st)
		out = append(out, Result{Path: path, Content: buf.Bytes()})
	}
	if len(allErrs) > 0 {
		return nil, total, fmt.Errorf("unsupported constructs:\n  %s", strings.Join(allErrs, "\n  "))
	}
	return out, total, nil
}

// stripComments keeps only compiler directives (//go:build, //go:embed, ...):
// free-floating comments are misplaced by the printer once statements are
// replaced, and the instrumented copy is not meant to be read as documentation.
func stripComments(f *ast.File) {
	var keep []*ast.CommentGroup
	for _, g := range f.Comments {
		var l []*ast.Comment
		for _, cm := range g.List {
			if strings.HasPrefix(cm.Text, "//go:") || strings.HasPrefix(cm.Text, "// +build") || strings.HasPrefix(cm.Text, "//export ") {
				l = append(l, cm)
			}
		}
		if len(l) > 0 {
			g.List = l
			keep = append(keep, g)
		}
	}
	f.Comments = keep
}

// ---------------------------------------------------------------------------

func (c *fileCtx) rewriteImports() {
	for _, im := range c.file.Imports {
		p, _ := strconv.Unquote(im.Path.Value)
		switch p {
		case "sync":
			im.Path.Value = strconv.Quote(ssyncPath)
			if im.Name == nil {
				im.Name = ast.NewIdent("sync")
			}
			c.st.SyncImports++
		case "sync/atomic":
			im.Path.Value = strconv.Quote(atomicPath)
			if im.Name == nil {
				im.Name = ast.NewIdent("atomic")
			}
			c.st.AtomicImports++
		}
	}
}

func addImport(f *ast.File, name, path string) {
	spec := &ast.ImportSpec{Name: ast.NewIdent(name), Path: &ast.BasicLit{Kind: token.STRING, Value: strconv.Quote(path)}}
	decl := &ast.GenDecl{Tok: token.IMPORT, Specs: []ast.Spec{spec}}
	f.Decls = append([]ast.Decl{decl}, f.Decls...)
	f.Imports = append(f.Imports, spec)
}

// fixUnusedImports blanks imports that the rewriting made unused.
func (c *fileCtx) fixUnusedImports(f *ast.File) {
	usedNames := map[string]bool{}
	ast.Inspect(f, func(n ast.Node) bool {
		if se, ok := n.(*ast.SelectorExpr); ok {
			if id, ok := se.X.(*ast.Ident); ok {
				usedNames[id.Name] = true
			}
		}
		return true
	})
	for _, im := range f.Imports {
		if im.Name != nil && (im.Name.Name == "_" || im.Name.Name == ".") {
			continue
		}
		name := ""
		if im.Name != nil {
			name = im.Name.Name
		} else {
			// the package name as the type checker saw it
			for id, obj := range c.info.Uses {
				if pn, ok := obj.(*types.PkgName); ok && strconv.Quote(pn.Imported().Path()) == im.Path.Value {
					name = id.Name
					break
				}
			}
			if name == "" {
				p, _ := strconv.Unquote(im.Path.Value)
				name = p[strings.LastIndex(p, "/")+1:]
			}
		}
		if !usedNames[name] {
			im.Name = ast.NewIdent("_")
		}
	}
}

// ---------------------------------------------------------------------------
// helpers to build nodes

func (c *fileCtx) sched(name string) ast.Expr {
	c.used = true
	return &ast.SelectorExpr{X: ast.NewIdent(schedName), Sel: ast.NewIdent(name)}
}

func call(fun ast.Expr, args ...ast.Expr) *ast.CallExpr {
	return &ast.CallExpr{Fun: fun, Args: args}
}

func strLit(s string) ast.Expr { return &ast.BasicLit{Kind: token.STRING, Value: strconv.Quote(s)} }

func (c *fileCtx) tmp(prefix string) *ast.Ident {
	c.counter++
	return ast.NewIdent(fmt.Sprintf("e3%s%d", prefix, c.counter))
}

func (c *fileCtx) exprString(e ast.Expr) string {
	var b bytes.Buffer
	printer.Fprint(&b, c.r.Fset, e)
	s := b.String()
	if i := strings.IndexAny(s, "\n{"); i >= 0 {
		s = s[:i]
	}
	return s
}

func unparen(e ast.Expr) ast.Expr {
	for {
		p, ok := e.(*ast.ParenExpr)
		if !ok {
			return e
		}
		e = p.X
	}
}

func isRecv(e ast.Expr) (*ast.UnaryExpr, bool) {
	u, ok := unparen(e).(*ast.UnaryExpr)
	if ok && u.Op == token.ARROW {
		return u, true
	}
	return nil, false
}

func (c *fileCtx) isChan(e ast.Expr) bool {
	tv, ok := c.info.Types[e]
	if !ok || tv.Type == nil {
		return false
	}
	_, is := tv.Type.Underlying().(*types.Chan)
	return is
}

func (c *fileCtx) isBuiltin(fun ast.Expr, name string) bool {
	id, ok := unparen(fun).(*ast.Ident)
	if !ok || id.Name != name {
		return false
	}
	_, isB := c.info.Uses[id].(*types.Builtin)
	return isB
}

// pkgFunc reports whether fun is a reference to function name of package path.
func (c *fileCtx) pkgFunc(fun ast.Expr) (pkgPath, name string, ok bool) {
	se, ok := unparen(fun).(*ast.SelectorExpr)
	if !ok {
		return "", "", false
	}
	id, ok := se.X.(*ast.Ident)
	if !ok {
		return "", "", false
	}
	pn, ok := c.info.Uses[id].(*types.PkgName)
	if !ok {
		return "", "", false
	}
	return pn.Imported().Path(), se.Sel.Name, true
}

// ---------------------------------------------------------------------------
// the rewriting walk: decisions are taken pre-order on original nodes (type
// information is keyed by them); the replacement is then walked recursively.

var nodeType = reflect.TypeOf((*ast.Node)(nil)).Elem()

func (c *fileCtx) rewrite(n ast.Node) ast.Node {
	if n == nil || reflect.ValueOf(n).IsNil() {
		return n
	}
	n = c.pre(n)
	c.children(n)
	return n
}

func (c *fileCtx) children(n ast.Node) {
	v := reflect.ValueOf(n)
	if v.Kind() != reflect.Ptr || v.Elem().Kind() != reflect.Struct {
		return
	}
	s := v.Elem()
	for i := 0; i < s.NumField(); i++ {
		f := s.Field(i)
		switch f.Kind() {
		case reflect.Interface, reflect.Ptr:
			if f.IsNil() || !f.Type().Implements(nodeType) {
				continue
			}
			if _, isCG := f.Interface().(*ast.CommentGroup); isCG {
				continue
			}
			child := f.Interface().(ast.Node)
			nw := c.rewrite(child)
			if nw != child {
				nv := reflect.ValueOf(nw)
				if !nv.Type().AssignableTo(f.Type()) {
					c.errorf(child, "internal: cannot place %T into field %s of %T", nw, s.Type().Field(i).Name, n)
					continue
				}
				f.Set(nv)
			}
		case reflect.Slice:
			et := f.Type().Elem()
			if !et.Implements(nodeType) {
				continue
			}
			for j := 0; j < f.Len(); j++ {
				e := f.Index(j)
				if (e.Kind() == reflect.Interface || e.Kind() == reflect.Ptr) && e.IsNil() {
					continue
				}
				child := e.Interface().(ast.Node)
				if _, isCG := child.(*ast.CommentGroup); isCG {
					continue
				}
				nw := c.rewrite(child)
				if nw != child {
					nv := reflect.ValueOf(nw)
					if !nv.Type().AssignableTo(et) {
						c.errorf(child, "internal: cannot place %T into %T", nw, n)
						continue
					}
					e.Set(nv)
				}
			}
		}
	}
}

func (c *fileCtx) pre(n ast.Node) ast.Node {
	switch x := n.(type) {
	case *ast.SendStmt:
		c.st.Sends++
		return &ast.ExprStmt{X: call(call(c.sched("ChanSender"), x.Chan), x.Value)}
	case *ast.GoStmt:
		return c.goStmt(x)
	case *ast.SelectStmt:
		return c.selectStmt(x, nil)
	case *ast.RangeStmt:
		if c.isChan(x.X) {
			return c.rangeChan(x, nil)
		}
	case *ast.LabeledStmt:
		switch s := x.Stmt.(type) {
		case *ast.SelectStmt:
			return c.selectStmt(s, x.Label)
		case *ast.RangeStmt:
			if c.isChan(s.X) {
				return c.rangeChan(s, x.Label)
			}
		}
	case *ast.AssignStmt:
		if len(x.Lhs) == 2 && len(x.Rhs) == 1 {
			if u, ok := isRecv(x.Rhs[0]); ok {
				c.st.Recvs++
				x.Rhs[0] = call(c.sched("ChanRecv2"), u.X)
			}
		}
	case *ast.ValueSpec:
		if len(x.Names) == 2 && len(x.Values) == 1 {
			if u, ok := isRecv(x.Values[0]); ok {
				c.st.Recvs++
				x.Values[0] = call(c.sched("ChanRecv2"), u.X)
			}
		}
	case *ast.UnaryExpr:
		if x.Op == token.ARROW {
			c.st.Recvs++
			return call(c.sched("ChanRecv"), x.X)
		}
	case *ast.CallExpr:
		return c.callExpr(x)
	case *ast.SelectorExpr:
		// references (not calls) to functions we cannot model
		if p, name, ok := c.pkgFunc(x); ok {
			c.checkDenied(x, p, name)
		}
	}
	return n
}

var denied = map[string]string{
	"time.After": "", "time.Tick": "", "time.NewTimer": "", "time.NewTicker": "", "time.AfterFunc": "",
	"runtime.Goexit": "", "runtime.LockOSThread": "", "os/signal.Notify": "", "os/signal.NotifyContext": "",
	"context.WithCancel": "", "context.WithTimeout": "", "context.WithDeadline": "", "context.WithCancelCause": "",
	"reflect.Select": "", "net.Listen": "", "net.Dial": "", "net/http.ListenAndServe": "",
	"os/exec.Command": "",
}

func (c *fileCtx) checkDenied(n ast.Node, pkg, name string) {
	if _, bad := denied[pkg+"."+name]; bad {
		c.errorf(n, "%s.%s blocks in / schedules from the real runtime and is not modelled by the E3 scheduler", pkg, name)
	}
}

func (c *fileCtx) callExpr(x *ast.CallExpr) ast.Node {
	switch {
	case c.isBuiltin(x.Fun, "close") && len(x.Args) == 1:
		c.st.Closes++
		return call(c.sched("ChanClose"), x.Args[0])
	case c.isBuiltin(x.Fun, "len") && len(x.Args) == 1 && c.isChan(x.Args[0]):
		c.st.Misc++
		return call(c.sched("ChanLen"), x.Args[0])
	case c.isBuiltin(x.Fun, "recover") && len(x.Args) == 0:
		c.st.Recovers++
		// the inner call must stay a direct call of the builtin by the deferred function
		inner := &ast.CallExpr{Fun: ast.NewIdent("recover")}
		return call(c.sched("Recover"), inner)
	}
	if p, name, ok := c.pkgFunc(x.Fun); ok {
		switch p + "." + name {
		case "os.Exit":
			c.st.Exits++
			return call(c.sched("Exit"), append([]ast.Expr{strLit("os.Exit")}, x.Args...)...)
		case "github.com/tebeka/atexit.Exit":
			c.st.Exits++
			return call(c.sched("Exit"), append([]ast.Expr{strLit("atexit.Exit")}, x.Args...)...)
		case "log.Fatal", "log.Fatalf", "log.Fatalln":
			c.st.Exits++
			nc := call(c.sched("Log"+name), x.Args...)
			nc.Ellipsis = x.Ellipsis
			return nc
		case "runtime/debug.PrintStack":
			c.st.Misc++
			return call(c.sched("PrintStack"))
		case "runtime.Gosched":
			c.st.Misc++
			return call(c.sched("Yield"))
		case "time.Sleep":
			c.st.Misc++
			return call(c.sched("Sleep"), x.Args...)
		}
	}
	return x
}

func (c *fileCtx) goStmt(g *ast.GoStmt) ast.Node {
	c.st.Gos++
	name := c.exprString(g.Call.Fun)
	if fl, ok := unparen(g.Call.Fun).(*ast.FuncLit); ok && len(g.Call.Args) == 0 {
		pos := c.r.Fset.Position(g.Pos())
		return &ast.ExprStmt{X: call(c.sched("Go"), strLit(fmt.Sprintf("func@%s:%d", filepath.Base(pos.Filename), pos.Line)), fl)}
	}
	if tv, ok := c.info.Types[g.Call.Fun]; ok && (tv.IsType() || tv.IsBuiltin()) {
		c.errorf(g, "go statement with conversion/builtin is not supported")
		return g
	}
	// evaluate the function value and the arguments now, call them in the new thread
	var lhs, rhs, args []ast.Expr
	f := c.tmp("f")
	lhs = append(lhs, f)
	rhs = append(rhs, g.Call.Fun)
	sig, _ := c.info.Types[g.Call.Fun].Type.Underlying().(*types.Signature)
	for i, a := range g.Call.Args {
		v := c.tmp("a")
		lhs = append(lhs, v)
		// give untyped constants the parameter type
		if tv := c.info.Types[a]; tv.Value != nil && sig != nil {
			if b, ok := tv.Type.(*types.Basic); ok && b.Info()&types.IsUntyped != 0 {
				c.errorf(a, "go statement with untyped constant argument %d is not supported", i)
			}
		}
		rhs = append(rhs, a)
		args = append(args, v)
	}
	inner := &ast.CallExpr{Fun: f, Args: args, Ellipsis: g.Call.Ellipsis}
	if inner.Ellipsis != token.NoPos {
		inner.Ellipsis = 1
	}
	fl := &ast.FuncLit{Type: &ast.FuncType{Params: &ast.FieldList{}}, Body: &ast.BlockStmt{List: []ast.Stmt{&ast.ExprStmt{X: inner}}}}
	return &ast.BlockStmt{List: []ast.Stmt{
		&ast.AssignStmt{Lhs: lhs, Tok: token.DEFINE, Rhs: rhs},
		&ast.ExprStmt{X: call(c.sched("Go"), strLit(name), fl)},
	}}
}

func (c *fileCtx) selectStmt(s *ast.SelectStmt, label *ast.Ident) ast.Node {
	c.st.Selects++
	var pre []ast.Stmt
	var caseVars []ast.Expr
	var clauses []ast.Stmt
	hasDefault := false
	idx := 0
	for _, cl := range s.Body.List {
		cc := cl.(*ast.CommClause)
		if cc.Comm == nil {
			hasDefault = true
			clauses = append(clauses, &ast.CaseClause{List: []ast.Expr{&ast.UnaryExpr{Op: token.SUB, X: &ast.BasicLit{Kind: token.INT, Value: "1"}}}, Body: cc.Body})
			continue
		}
		v := c.tmp("c")
		var body []ast.Stmt
		switch comm := cc.Comm.(type) {
		case *ast.SendStmt:
			pre = append(pre, &ast.AssignStmt{Lhs: []ast.Expr{v}, Tok: token.DEFINE, Rhs: []ast.Expr{call(call(c.sched("CaseSender"), comm.Chan), comm.Value)}})
		case *ast.ExprStmt:
			u, ok := isRecv(comm.X)
			if !ok {
				c.errorf(comm, "unsupported select case")
				return s
			}
			pre = append(pre, &ast.AssignStmt{Lhs: []ast.Expr{v}, Tok: token.DEFINE, Rhs: []ast.Expr{call(c.sched("CaseRecv"), u.X)}})
		case *ast.AssignStmt:
			if len(comm.Rhs) != 1 {
				c.errorf(comm, "unsupported select case")
				return s
			}
			u, ok := isRecv(comm.Rhs[0])
			if !ok {
				c.errorf(comm, "unsupported select case")
				return s
			}
			pre = append(pre, &ast.AssignStmt{Lhs: []ast.Expr{v}, Tok: token.DEFINE, Rhs: []ast.Expr{call(c.sched("CaseRecv"), u.X)}})
			rhs := []ast.Expr{&ast.SelectorExpr{X: v, Sel: ast.NewIdent("V")}}
			if len(comm.Lhs) == 2 {
				rhs = append(rhs, &ast.SelectorExpr{X: v, Sel: ast.NewIdent("OK")})
			}
			body = append(body, &ast.AssignStmt{Lhs: comm.Lhs, Tok: comm.Tok, Rhs: rhs})
		default:
			c.errorf(cc, "unsupported select case")
			return s
		}
		caseVars = append(caseVars, v)
		clauses = append(clauses, &ast.CaseClause{List: []ast.Expr{&ast.BasicLit{Kind: token.INT, Value: strconv.Itoa(idx)}}, Body: append(body, cc.Body...)})
		idx++
	}
	hd := "false"
	if hasDefault {
		hd = "true"
	}
	sw := &ast.SwitchStmt{Tag: call(c.sched("Select"), append([]ast.Expr{ast.NewIdent(hd)}, caseVars...)...), Body: &ast.BlockStmt{List: clauses}}
	var st ast.Stmt = sw
	if label != nil {
		st = &ast.LabeledStmt{Label: label, Stmt: sw}
	}
	return &ast.BlockStmt{List: append(pre, st)}
}

func (c *fileCtx) rangeChan(r *ast.RangeStmt, label *ast.Ident) ast.Node {
	c.st.Ranges++
	if r.Value != nil {
		c.errorf(r, "range over channel with two variables")
		return r
	}
	ch := c.tmp("ch")
	ok := c.tmp("ok")
	var recv ast.Stmt
	switch {
	case r.Key == nil:
		recv = &ast.AssignStmt{Lhs: []ast.Expr{ast.NewIdent("_"), ok}, Tok: token.DEFINE, Rhs: []ast.Expr{call(c.sched("ChanRecv2"), ch)}}
	case r.Tok == token.DEFINE:
		recv = &ast.AssignStmt{Lhs: []ast.Expr{r.Key, ok}, Tok: token.DEFINE, Rhs: []ast.Expr{call(c.sched("ChanRecv2"), ch)}}
	default:
		c.errorf(r, "range over channel with assignment to an existing variable")
		return r
	}
	brk := &ast.IfStmt{Cond: &ast.UnaryExpr{Op: token.NOT, X: ok}, Body: &ast.BlockStmt{List: []ast.Stmt{&ast.BranchStmt{Tok: token.BREAK}}}}
	loop := &ast.ForStmt{Body: &ast.BlockStmt{List: append([]ast.Stmt{recv, brk}, r.Body.List...)}}
	var st ast.Stmt = loop
	if label != nil {
		st = &ast.LabeledStmt{Label: label, Stmt: loop}
	}
	return &ast.BlockStmt{List: []ast.Stmt{
		&ast.AssignStmt{Lhs: []ast.Expr{ch}, Tok: token.DEFINE, Rhs: []ast.Expr{r.X}},
		st,
	}}
}

// verify makes sure no real blocking construct survived.
func (c *fileCtx) verify(f *ast.File) {
	ast.Inspect(f, func(n ast.Node) bool {
		switch x := n.(type) {
		case *ast.SendStmt:
			c.errorf(x, "channel send left in place")
		case *ast.SelectStmt:
			c.errorf(x, "select left in place")
		case *ast.GoStmt:
			c.errorf(x, "go statement left in place")
		case *ast.UnaryExpr:
			if x.Op == token.ARROW {
				c.errorf(x, "channel receive left in place")
			}
		case *ast.RangeStmt:
			if c.isChan(x.X) {
				c.errorf(x, "range over channel left in place")
			}
		}
		return true
	})
}
