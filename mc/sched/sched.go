// Package sched is E3: a controlled cooperative scheduler for real Go code.
//
// Exactly one managed goroutine ("thread") runs at a time; every other managed
// goroutine is parked on its private wake channel of the real runtime. Before
// every shim operation (mutex, channel, select, atomic, ...) the running
// thread reaches a scheduling point where the set of ENABLED threads is
// computed and, when there are at least two, the chooser (explore.Exec) is
// asked which one continues. Answer 0 = the running thread continues (or, when
// it blocks, the enabled thread with the lowest id); any other answer is a
// deviation (preemption). "No enabled thread while an application thread has
// not finished" is a deadlock. The package has no dependency on the code under
// test, so instrumented copies of amd/driver and akita may import it.
package sched

import (
	"fmt"
	"runtime"
	"runtime/debug"
	"strings"
	"unsafe"
)

// Chooser is the part of explore.Exec the scheduler needs.
type Chooser interface {
	Choose(n int, tag string) int
	CanDeviate() bool
}

// Replayer is optionally implemented by a Chooser: while it reports true the
// execution is still inside a prefix that an earlier execution has already
// visited (the scheduler then skips the state fingerprints).
type Replayer interface{ Replaying() bool }

// Config of one controlled execution.
type Config struct {
	Horizon int  // max number of scheduling points (shim operations); 0 = 200000
	Record  bool // keep a step-by-step schedule
	// PointBeforeRelease adds scheduling points before Unlock/RUnlock/Done
	// (left movers). Off by default: see notes/E3.md for the reduction argument.
	PointBeforeRelease bool
	// Classify, when set, is called (with every thread parked) after a
	// deadlock to refine its signature.
	Classify func(r *Result) string
}

// ThreadInfo describes a thread at the end of the execution.
type ThreadInfo struct {
	ID       int
	Name     string
	Daemon   bool
	Finished bool
	Blocked  bool
	What     string   // operation it is blocked in / was about to perform
	Stack    []string // innermost frames outside the scheduler (function names)
	// LastPreempt is the function in which the thread was last preempted
	// (descheduled while still enabled); "-" if never.
	LastPreempt string
	// LastPreemptStack: innermost frames (function:line) at that preemption.
	LastPreemptStack []string
}

// Result of one controlled execution.
type Result struct {
	Kind    string // "ok" | "deadlock" | "abort" | "capped"
	Class   string // deadlock classification (Config.Classify)
	Msg     string
	Thread  int // thread that aborted (Kind=="abort")
	Steps   int
	Threads []ThreadInfo
	Trace   []string // when Record
	States  []uint64 // control-state fingerprints seen at choice points
}

// Thread is one managed goroutine.
type Thread struct {
	ID     int
	Name   string
	Daemon bool

	wake      chan struct{}
	exited    chan struct{}
	started   bool
	finished  bool
	blocked   bool
	ready     func() bool
	what      string
	pcs       [10]uintptr
	npc       int
	recov     string // text of the last recovered panic (sched.Recover)
	stackTxt  string // debug.PrintStack replacement
	fp        uint64 // fingerprint of the park position
	lastPre   string
	lastPrePC [10]uintptr
	lastPreN  int
}

// Sched is the scheduler of one execution.
type Sched struct {
	cfg       Config
	ch        Chooser
	threads   []*Thread
	cur       *Thread
	steps     int
	over      bool
	dead      bool
	done      chan struct{}
	res       *Result
	chans     map[unsafe.Pointer]*chanState
	epoch     uint64
	states    map[uint64]struct{}
	rep       Replayer
	inQuiesce bool
	infra     any
}

// S is the active scheduler of this process (nil = free mode: shim operations
// act directly and must never block).
var S *Sched

var epochCounter uint64 = 1

// Epoch returns the id of the current execution; shim objects that outlive an
// execution (package-level variables) reset their state when it changes.
func Epoch() uint64 {
	if S != nil {
		return S.epoch
	}
	return 0
}

// Active reports whether a controlled execution is in progress.
func Active() bool { return S != nil }

// Run executes main as thread 0 (an application thread) under the scheduler and
// returns when the execution is over and every managed goroutine has exited.
func Run(ch Chooser, cfg Config, main func()) *Result {
	if S != nil {
		panic("sched: nested Run")
	}
	if cfg.Horizon == 0 {
		cfg.Horizon = 200000
	}
	epochCounter++
	s := &Sched{cfg: cfg, ch: ch, done: make(chan struct{}), chans: map[unsafe.Pointer]*chanState{},
		epoch: epochCounter, states: map[uint64]struct{}{}}
	s.rep, _ = ch.(Replayer)
	S = s
	t0 := s.spawn("main", false, main)
	s.cur = t0
	t0.wake <- struct{}{}
	<-s.done
	// freeze: from here on every shim operation is a non-blocking no-op
	s.dead = true
	r := s.res
	r.Steps = s.steps
	for _, th := range s.threads {
		ti := ThreadInfo{ID: th.ID, Name: th.Name, Daemon: th.Daemon, Finished: th.finished, Blocked: th.blocked, What: th.what, LastPreempt: th.lastPre}
		if ti.LastPreempt == "" {
			ti.LastPreempt = "-"
		} else {
			ti.LastPreemptStack = framesN(th.lastPrePC[:th.lastPreN], 8)
		}
		if !th.finished {
			ti.Stack = frames(th.pcs[:th.npc])
		}
		r.Threads = append(r.Threads, ti)
	}
	for fp := range s.states {
		r.States = append(r.States, fp)
	}
	if r.Kind == "deadlock" {
		r.Msg = describeDeadlock(r)
		if cfg.Classify != nil {
			// every thread is parked: the classifier may inspect the state
			r.Class = cfg.Classify(r)
		}
	}
	// teardown: one by one, so that deferred functions of the code under test
	// never run concurrently
	for i := 0; i < len(s.threads); i++ {
		th := s.threads[i]
		select {
		case <-th.exited:
			continue
		default:
		}
		select {
		case th.wake <- struct{}{}:
		default:
		}
		<-th.exited
	}
	S = nil
	if r.Kind == "infra" {
		panic(s.infra)
	}
	return r
}

func describeDeadlock(r *Result) string {
	var b strings.Builder
	b.WriteString("no enabled thread while an application thread has not finished:\n")
	for _, t := range r.Threads {
		st := "blocked in " + t.What
		if t.Finished {
			st = "finished"
		}
		kind := "app"
		if t.Daemon {
			kind = "daemon"
		}
		fmt.Fprintf(&b, "  T%d %s (%s): %s", t.ID, t.Name, kind, st)
		if len(t.Stack) > 0 {
			fmt.Fprintf(&b, " at %s", strings.Join(t.Stack, " < "))
		}
		if t.LastPreempt != "-" && t.LastPreempt != "" {
			fmt.Fprintf(&b, "  [last preempted in %s]", t.LastPreempt)
		}
		b.WriteString("\n")
	}
	return b.String()
}

func frames(pcs []uintptr) []string { return framesN(pcs, 4) }

func framesN(pcs []uintptr, max int) []string {
	if len(pcs) == 0 {
		return nil
	}
	var out []string
	fr := runtime.CallersFrames(pcs)
	for {
		f, more := fr.Next()
		fn := f.Function
		if fn != "" && !strings.Contains(fn, "verif/mc/sched") && !strings.HasPrefix(fn, "runtime.") {
			if i := strings.LastIndex(fn, "/"); i >= 0 {
				fn = fn[i+1:]
			}
			out = append(out, fmt.Sprintf("%s:%d", fn, f.Line))
			if len(out) >= max {
				break
			}
		}
		if !more {
			break
		}
	}
	return out
}

func (s *Sched) spawn(name string, daemon bool, f func()) *Thread {
	t := &Thread{ID: len(s.threads), Name: name, Daemon: daemon, wake: make(chan struct{}, 1), exited: make(chan struct{})}
	s.threads = append(s.threads, t)
	go func() {
		defer func() {
			r := recover()
			if r != nil && !s.dead && !s.over {
				// a real panic of the code under test escaped the thread
				s.logf("T%d %-12s PANIC %v", t.ID, t.Name, r)
				t.finished = true
				t.what = "panicked"
				msg := fmt.Sprintf("panic in thread T%d (%s): %v\n%s", t.ID, t.Name, r, trimStack(string(debug.Stack())))
				close(t.exited)
				s.end("abort", msg, t.ID)
				return
			}
			close(t.exited)
		}()
		<-t.wake
		if s.dead {
			return
		}
		t.started = true
		f()
		s.threadDone(t)
	}()
	return t
}

func trimStack(st string) string {
	lines := strings.Split(st, "\n")
	var out []string
	for i := 0; i+1 < len(lines); i++ {
		l := lines[i]
		if strings.HasPrefix(l, "\t") || strings.HasPrefix(l, "goroutine") {
			continue
		}
		if strings.Contains(l, "verif/mc/sched") || strings.HasPrefix(l, "runtime") || strings.HasPrefix(l, "panic(") {
			continue
		}
		loc := strings.TrimSpace(lines[i+1])
		if j := strings.Index(loc, " +0x"); j >= 0 {
			loc = loc[:j]
		}
		out = append(out, "  "+l+"  "+loc)
		if len(out) >= 10 {
			break
		}
	}
	return strings.Join(out, "\n")
}

func (s *Sched) logf(format string, a ...any) {
	if s.cfg.Record {
		if s.res == nil {
			s.res = &Result{}
		}
		s.res.Trace = append(s.res.Trace, fmt.Sprintf(format, a...))
	}
}

// end records the outcome (first one wins) and releases the controller.
func (s *Sched) end(kind, msg string, thread int) {
	if s.over {
		return
	}
	s.over = true
	tr := []string(nil)
	if s.res != nil {
		tr = s.res.Trace
	}
	s.res = &Result{Kind: kind, Msg: msg, Thread: thread, Trace: tr}
	close(s.done)
}

// parkForever parks the calling thread until teardown.
func (s *Sched) parkForever(t *Thread) {
	for {
		<-t.wake
		if s.dead {
			runtime.Goexit()
		}
	}
}

func (s *Sched) park(t *Thread) {
	<-t.wake
	if s.dead {
		runtime.Goexit()
	}
}

func (s *Sched) enabledOthers(t *Thread, buf []*Thread) []*Thread {
	for _, th := range s.threads {
		if th == t || th.finished {
			continue
		}
		if th.blocked && !th.ready() {
			continue
		}
		buf = append(buf, th)
	}
	return buf
}

// capture records where the thread is (full stack: it is about to park).
func (s *Sched) capture(t *Thread, what string) {
	t.what = what
	t.npc = runtime.Callers(3, t.pcs[:])
	s.position(t, t.pcs[:t.npc])
}

func (s *Sched) position(t *Thread, pcs []uintptr) {
	h := uint64(14695981039346656037)
	n := 0
	for _, pc := range pcs {
		h = (h ^ uint64(pc)) * 1099511628211
		if n++; n >= 4 {
			break
		}
	}
	t.fp = h
}

// quick records only the position fingerprint (choice point, thread goes on).
func (s *Sched) quick(t *Thread) {
	var pcs [4]uintptr
	n := runtime.Callers(4, pcs[:])
	s.position(t, pcs[:n])
}

// noteState records the control-state fingerprint at a choice point.
func (s *Sched) noteState(t *Thread) {
	h := uint64(1469598103934665603)
	for _, th := range s.threads {
		v := th.fp
		if th.finished {
			v = 1
		} else if th.blocked {
			v ^= 0x9e3779b97f4a7c15
		}
		if th == t {
			v ^= 0x5555
		}
		h = (h ^ v) * 1099511628211
	}
	s.states[h] = struct{}{}
}

func where() string {
	var pcs [12]uintptr
	n := runtime.Callers(3, pcs[:])
	fr := runtime.CallersFrames(pcs[:n])
	for {
		f, more := fr.Next()
		if f.Function != "" && !strings.Contains(f.Function, "verif/mc/sched") {
			fn := f.Function
			if i := strings.LastIndex(fn, "/"); i >= 0 {
				fn = fn[i+1:]
			}
			file := f.File
			if i := strings.LastIndex(file, "/"); i >= 0 {
				file = file[i+1:]
			}
			return fmt.Sprintf("%s (%s:%d)", fn, file, f.Line)
		}
		if !more {
			return "?"
		}
	}
}

// whereFunc is the innermost function outside the scheduler (no line number).
func whereFunc() string {
	var pcs [12]uintptr
	n := runtime.Callers(3, pcs[:])
	fr := runtime.CallersFrames(pcs[:n])
	for {
		f, more := fr.Next()
		if f.Function != "" && !strings.Contains(f.Function, "verif/mc/sched") {
			fn := f.Function
			if i := strings.LastIndex(fn, "/"); i >= 0 {
				fn = fn[i+1:]
			}
			return fn
		}
		if !more {
			return "?"
		}
	}
}

// choose asks the explorer. A replay divergence (the recorded answer does not
// fit this choice point) is raised by the explorer as a panic on the calling
// managed goroutine; it must not be seen by the code under test (runEngine
// would recover it): the execution ends as an infrastructure error and Run
// re-raises the value on the controller goroutine.
func (s *Sched) choose(n int, tag string) (c int) {
	defer func() {
		if r := recover(); r != nil {
			t := s.cur
			s.infra = r
			s.end("infra", fmt.Sprint(r), t.ID)
			s.parkForever(t)
		}
	}()
	return s.ch.Choose(n, tag)
}

// Point is the scheduling point before a shim operation. It returns the
// scheduler and the calling thread; (nil,nil) in free mode and (s,nil) during
// teardown (the operation must then be a non-blocking no-op).
func Point(op string) (*Sched, *Thread) {
	s := S
	if s == nil {
		return nil, nil
	}
	if s.dead || s.over {
		if s.over && !s.dead {
			// the execution has ended while this thread was still running
			// (it reported the end itself): stop here.
			if t := s.cur; t != nil {
				s.parkForever(t)
			}
		}
		return s, nil
	}
	t := s.cur
	s.steps++
	if s.steps > s.cfg.Horizon {
		s.capture(t, op)
		s.end("capped", fmt.Sprintf("step horizon %d reached", s.cfg.Horizon), t.ID)
		s.parkForever(t)
	}
	var buf [8]*Thread
	others := s.enabledOthers(t, buf[:0])
	if len(others) == 0 {
		if s.cfg.Record {
			s.logf("T%d %-12s %-22s %s", t.ID, t.Name, op, where())
		}
		return s, t
	}
	c := 0
	if s.ch.CanDeviate() {
		if s.rep == nil || !s.rep.Replaying() {
			s.quick(t)
			s.noteState(t)
		}
		c = s.choose(1+len(others), op)
	}
	if s.cfg.Record {
		s.logf("T%d %-12s %-22s %s   [enabled:%s]%s", t.ID, t.Name, op, where(), ids(others), pre(c, others))
	}
	if c != 0 {
		s.capture(t, op)
		t.lastPre = whereFunc()
		t.lastPrePC, t.lastPreN = t.pcs, t.npc
		s.switchTo(t, others[c-1])
	}
	return s, t
}

func ids(ts []*Thread) string {
	var b strings.Builder
	for _, t := range ts {
		fmt.Fprintf(&b, " T%d", t.ID)
	}
	return b.String()
}

func pre(c int, others []*Thread) string {
	if c == 0 {
		return ""
	}
	return fmt.Sprintf("  ==> PREEMPTED, switch to T%d (%s)", others[c-1].ID, others[c-1].Name)
}

func (s *Sched) switchTo(from, to *Thread) {
	s.cur = to
	to.wake <- struct{}{}
	s.park(from)
}

// Block parks the calling thread until ready() holds and the scheduler picks
// it again. The caller must re-check its condition afterwards only if other
// threads could have run between the selection and the resumption (they
// cannot), so a single `for cond { Block }` loop is what shims use.
func (s *Sched) Block(t *Thread, what string, ready func() bool) {
	t.blocked = true
	t.ready = ready
	s.capture(t, what)
	if s.cfg.Record {
		s.logf("T%d %-12s BLOCKS in %s  %s", t.ID, t.Name, what, where())
	}
	s.dispatch(t, what)
	t.blocked = false
	t.ready = nil
}

// dispatch gives the processor to another thread because t cannot continue
// (blocked or finished). Free switch: index 0 = lowest enabled id.
func (s *Sched) dispatch(t *Thread, what string) {
	var buf [8]*Thread
	others := s.enabledOthers(t, buf[:0])
	if len(others) == 0 {
		// quiescence
		for _, th := range s.threads {
			if !th.Daemon && !th.finished {
				s.end("deadlock", "", t.ID)
				if t.finished {
					return
				}
				s.parkForever(t)
			}
		}
		s.end("ok", "", t.ID)
		if t.finished {
			return
		}
		s.parkForever(t)
	}
	c := 0
	if len(others) > 1 {
		s.noteState(t)
		if s.ch.CanDeviate() {
			c = s.choose(len(others), what+"/yield")
		}
	}
	to := others[c]
	if s.cfg.Record {
		s.logf("   -> T%d (%s) runs%s", to.ID, to.Name, map[bool]string{false: "", true: "  (non-default choice)"}[c != 0])
	}
	s.cur = to
	to.wake <- struct{}{}
	if t.finished {
		return
	}
	s.park(t)
}

func (s *Sched) threadDone(t *Thread) {
	if s.dead || s.over {
		return
	}
	t.finished = true
	t.what = "finished"
	if s.cfg.Record {
		s.logf("T%d %-12s FINISHED", t.ID, t.Name)
	}
	all := true
	for _, th := range s.threads {
		if !th.Daemon && !th.finished {
			all = false
		}
	}
	if all {
		s.end("ok", "", t.ID)
		return
	}
	s.dispatch(t, "exit")
}

// Go spawns a daemon thread (a goroutine started by the code under test).
func Go(name string, f func()) {
	s := S
	if s == nil {
		go f()
		return
	}
	if s.dead || s.over {
		return
	}
	t := s.spawn(name, true, f)
	if s.cfg.Record {
		s.logf("T%d %-12s go %s -> T%d  %s", s.cur.ID, s.cur.Name, name, t.ID, where())
	}
}

// GoApp spawns an application (non-daemon) thread: the execution is over when
// all of them have finished; one of them blocked forever is a deadlock.
func GoApp(name string, f func()) {
	s := S
	if s == nil {
		panic("sched.GoApp outside a controlled execution")
	}
	if s.dead || s.over {
		return
	}
	t := s.spawn(name, false, f)
	if s.cfg.Record {
		s.logf("T%d %-12s spawns application thread %s -> T%d", s.cur.ID, s.cur.Name, name, t.ID)
	}
}

// Yield is a scheduling point whose default is to let another thread run
// (spin / poll loops: runtime.Gosched, time.Sleep).
func Yield() {
	s := S
	if s == nil {
		runtime.Gosched()
		return
	}
	if s.dead || s.over {
		Point("Yield")
		return
	}
	t := s.cur
	s.steps++
	if s.steps > s.cfg.Horizon {
		s.capture(t, "Yield")
		s.end("capped", fmt.Sprintf("step horizon %d reached", s.cfg.Horizon), t.ID)
		s.parkForever(t)
	}
	var buf [8]*Thread
	others := s.enabledOthers(t, buf[:0])
	if len(others) == 0 {
		return
	}
	// default: round robin to the next higher id (wrapping); the running
	// thread is the last alternative
	k := 0
	for i, th := range others {
		if th.ID > t.ID {
			k = i
			break
		}
	}
	rot := append(append([]*Thread{}, others[k:]...), others[:k]...)
	s.capture(t, "Yield")
	s.noteState(t)
	c := 0
	if s.ch.CanDeviate() {
		c = s.choose(len(rot)+1, "Yield")
	}
	if c == len(rot) {
		return
	}
	if s.cfg.Record {
		s.logf("T%d %-12s Yield -> T%d", t.ID, t.Name, rot[c].ID)
	}
	s.switchTo(t, rot[c])
}

// Exit replaces os.Exit / atexit.Exit / log.Fatal in instrumented code: the
// execution is aborted and recorded as "exit in thread T".
func Exit(how string, code int) {
	s := S
	if s == nil {
		panic(fmt.Sprintf("%s(%d) outside a controlled execution", how, code))
	}
	if s.dead {
		runtime.Goexit()
	}
	t := s.cur
	msg := fmt.Sprintf("%s(%d) in thread T%d (%s)", how, code, t.ID, t.Name)
	if t.recov != "" {
		msg += " after recovered panic: " + t.recov
	}
	if t.stackTxt != "" {
		msg += "\n" + t.stackTxt
	}
	s.logf("T%d %-12s %s", t.ID, t.Name, msg)
	s.capture(t, how)
	s.end("abort", msg, t.ID)
	s.parkForever(t)
}

// Fatal replaces log.Fatal*.
func Fatal(how string, text string) {
	s := S
	if s != nil && !s.dead && s.cur != nil {
		s.cur.recov = text
	}
	Exit(how, 1)
}

// Recover wraps the value of recover() in instrumented code so that the
// scheduler knows what was recovered.
func Recover(r any) any {
	s := S
	if s == nil || s.dead || r == nil {
		return r
	}
	if t := s.cur; t != nil {
		t.recov = fmt.Sprint(r)
		t.stackTxt = trimStack(string(debug.Stack()))
	}
	return r
}

// PrintStack replaces debug.PrintStack in instrumented code (silent).
func PrintStack() {}

// Logf appends a line to the recorded schedule (harness use).
func Logf(format string, a ...any) {
	if s := S; s != nil && s.cfg.Record && !s.dead {
		t := s.cur
		s.logf("T%d %-12s # %s", t.ID, t.Name, fmt.Sprintf(format, a...))
	}
}

// CurrentThread returns the id of the running thread (-1 in free mode).
func CurrentThread() int {
	if s := S; s != nil && s.cur != nil {
		return s.cur.ID
	}
	return -1
}

// Abort lets a harness end the execution with a violation found by a thread.
func Abort(msg string) {
	s := S
	if s == nil {
		panic(msg)
	}
	if s.dead {
		runtime.Goexit()
	}
	t := s.cur
	s.end("abort", msg, t.ID)
	s.parkForever(t)
}

// Release is the scheduling point of a pure release operation (Unlock,
// RUnlock, Done). A release only enables other threads and commutes to the
// left of every operation of another thread, so by default it is NOT a
// scheduling point (Config.PointBeforeRelease turns it into one).
func Release(op string) (*Sched, *Thread) {
	s := S
	if s == nil {
		return nil, nil
	}
	if s.dead || s.over || s.cfg.PointBeforeRelease {
		return Point(op)
	}
	s.steps++
	if s.cfg.Record {
		s.logf("T%d %-12s %-22s %s", s.cur.ID, s.cur.Name, op, where())
	}
	return s, s.cur
}

// LogFatal replaces log.Fatal.
func LogFatal(a ...any) { Fatal("log.Fatal", fmt.Sprint(a...)) }

// LogFatalf replaces log.Fatalf.
func LogFatalf(format string, a ...any) { Fatal("log.Fatalf", fmt.Sprintf(format, a...)) }

// LogFatalln replaces log.Fatalln.
func LogFatalln(a ...any) { Fatal("log.Fatalln", fmt.Sprintln(a...)) }

// Sleep replaces time.Sleep: there is no real time under the scheduler, a
// sleeping thread just lets the others run.
func Sleep[D ~int64](d D) { Yield() }

// Quiesce blocks the calling thread until no other thread is enabled (every
// daemon has run until it blocked or finished). Harness use: take end-of-run
// observables at a schedule-independent moment.
func Quiesce() {
	s := S
	if s == nil {
		return
	}
	_, t := Point("quiesce")
	if t == nil {
		return
	}
	idle := func() bool {
		if s.inQuiesce {
			return false
		}
		s.inQuiesce = true
		var buf [8]*Thread
		n := len(s.enabledOthers(t, buf[:0]))
		s.inQuiesce = false
		return n == 0
	}
	for !idle() {
		s.Block(t, "quiesce", idle)
	}
}
