// Package sync is the scheduler-controlled replacement of the standard "sync"
// package in instrumented code (import path verif/mc/sched/ssync, package name
// sync, same method sets). Anything the instrumented code uses that is not
// defined here is a compile error, i.e. a loud infrastructure failure.
package sync

import (
	"verif/mc/sched"
)

// Locker is sync.Locker.
type Locker interface {
	Lock()
	Unlock()
}

// Mutex is sync.Mutex.
type Mutex struct {
	epoch  uint64
	locked bool
}

func (m *Mutex) fresh() {
	if e := sched.Epoch(); m.epoch != e {
		m.epoch, m.locked = e, false
	}
}

// Lock locks m.
func (m *Mutex) Lock() {
	s, t := sched.Point("Mutex.Lock")
	m.fresh()
	if s == nil {
		if m.locked {
			panic("ssync: Mutex.Lock would block outside a controlled execution")
		}
		m.locked = true
		return
	}
	if t == nil {
		return
	}
	for m.locked {
		s.Block(t, "Mutex.Lock", func() bool { return !m.locked })
	}
	m.locked = true
}

// TryLock tries to lock m.
func (m *Mutex) TryLock() bool {
	s, t := sched.Point("Mutex.TryLock")
	m.fresh()
	if s != nil && t == nil {
		return true
	}
	if m.locked {
		return false
	}
	m.locked = true
	return true
}

// Unlock unlocks m.
func (m *Mutex) Unlock() {
	s, t := sched.Release("Mutex.Unlock")
	m.fresh()
	if s != nil && t == nil {
		return
	}
	if !m.locked {
		sched.Exit("fatal error: sync: unlock of unlocked mutex", 2)
	}
	m.locked = false
}

// RWMutex is sync.RWMutex (writer preference as in the runtime: a blocked
// Lock excludes new readers).
type RWMutex struct {
	epoch    uint64
	writer   bool
	readers  int
	wwaiting int
}

func (m *RWMutex) fresh() {
	if e := sched.Epoch(); m.epoch != e {
		*m = RWMutex{epoch: e}
	}
}

// Lock locks for writing.
func (m *RWMutex) Lock() {
	s, t := sched.Point("RWMutex.Lock")
	m.fresh()
	if s == nil {
		if m.writer || m.readers > 0 {
			panic("ssync: RWMutex.Lock would block outside a controlled execution")
		}
		m.writer = true
		return
	}
	if t == nil {
		return
	}
	if m.writer || m.readers > 0 {
		m.wwaiting++
		for m.writer || m.readers > 0 {
			s.Block(t, "RWMutex.Lock", func() bool { return !m.writer && m.readers == 0 })
		}
		m.wwaiting--
	}
	m.writer = true
}

// Unlock unlocks writing.
func (m *RWMutex) Unlock() {
	s, t := sched.Release("RWMutex.Unlock")
	m.fresh()
	if s != nil && t == nil {
		return
	}
	if !m.writer {
		sched.Exit("fatal error: sync: Unlock of unlocked RWMutex", 2)
	}
	m.writer = false
}

// RLock locks for reading.
func (m *RWMutex) RLock() {
	s, t := sched.Point("RWMutex.RLock")
	m.fresh()
	if s == nil {
		if m.writer {
			panic("ssync: RWMutex.RLock would block outside a controlled execution")
		}
		m.readers++
		return
	}
	if t == nil {
		return
	}
	for m.writer || m.wwaiting > 0 {
		s.Block(t, "RWMutex.RLock", func() bool { return !m.writer && m.wwaiting == 0 })
	}
	m.readers++
}

// RUnlock undoes RLock.
func (m *RWMutex) RUnlock() {
	s, t := sched.Release("RWMutex.RUnlock")
	m.fresh()
	if s != nil && t == nil {
		return
	}
	if m.readers <= 0 {
		sched.Exit("fatal error: sync: RUnlock of unlocked RWMutex", 2)
	}
	m.readers--
}

// TryLock tries to lock for writing.
func (m *RWMutex) TryLock() bool {
	s, t := sched.Point("RWMutex.TryLock")
	m.fresh()
	if s != nil && t == nil {
		return true
	}
	if m.writer || m.readers > 0 {
		return false
	}
	m.writer = true
	return true
}

// TryRLock tries to lock for reading.
func (m *RWMutex) TryRLock() bool {
	s, t := sched.Point("RWMutex.TryRLock")
	m.fresh()
	if s != nil && t == nil {
		return true
	}
	if m.writer || m.wwaiting > 0 {
		return false
	}
	m.readers++
	return true
}

// RLocker returns a Locker for the read side.
func (m *RWMutex) RLocker() Locker { return (*rlocker)(m) }

type rlocker RWMutex

func (r *rlocker) Lock()   { (*RWMutex)(r).RLock() }
func (r *rlocker) Unlock() { (*RWMutex)(r).RUnlock() }

// WaitGroup is sync.WaitGroup.
type WaitGroup struct {
	epoch uint64
	n     int
}

func (w *WaitGroup) fresh() {
	if e := sched.Epoch(); w.epoch != e {
		w.epoch, w.n = e, 0
	}
}

// Add adds delta.
func (w *WaitGroup) Add(delta int) {
	var s *sched.Sched
	var t *sched.Thread
	if delta > 0 {
		s, t = sched.Point("WaitGroup.Add")
	} else {
		s, t = sched.Release("WaitGroup.Done")
	}
	w.fresh()
	if s != nil && t == nil {
		return
	}
	w.n += delta
	if w.n < 0 {
		panic("sync: negative WaitGroup counter")
	}
}

// Done decrements.
func (w *WaitGroup) Done() { w.Add(-1) }

// Go runs f in a new goroutine and adds it to the group.
func (w *WaitGroup) Go(f func()) {
	w.Add(1)
	sched.Go("WaitGroup.Go", func() {
		defer w.Done()
		f()
	})
}

// Wait blocks until the counter is zero.
func (w *WaitGroup) Wait() {
	s, t := sched.Point("WaitGroup.Wait")
	w.fresh()
	if s == nil {
		if w.n != 0 {
			panic("ssync: WaitGroup.Wait would block outside a controlled execution")
		}
		return
	}
	if t == nil {
		return
	}
	for w.n != 0 {
		s.Block(t, "WaitGroup.Wait", func() bool { return w.n == 0 })
	}
}

// Once is sync.Once.
type Once struct {
	epoch   uint64
	done    bool
	running bool
}

// Do calls f once.
func (o *Once) Do(f func()) {
	s, t := sched.Point("Once.Do")
	if s != nil && t == nil {
		return
	}
	// NOTE: a Once is deliberately NOT reset between executions when it is a
	// package-level variable that already fired in free mode (process init).
	if e := sched.Epoch(); o.epoch != e && o.epoch != 0 {
		o.done, o.running = false, false
	}
	o.epoch = sched.Epoch()
	if o.done {
		return
	}
	if o.running {
		if s == nil {
			panic("ssync: Once.Do would block outside a controlled execution")
		}
		for !o.done {
			s.Block(t, "Once.Do", func() bool { return o.done })
		}
		return
	}
	o.running = true
	defer func() {
		o.done = true
		o.running = false
	}()
	f()
}

// Cond is sync.Cond.
type Cond struct {
	L       Locker
	epoch   uint64
	waiters []*condWaiter
}

type condWaiter struct{ woken bool }

// NewCond returns a new Cond.
func NewCond(l Locker) *Cond { return &Cond{L: l} }

func (c *Cond) fresh() {
	if e := sched.Epoch(); c.epoch != e {
		c.epoch, c.waiters = e, nil
	}
}

// Wait atomically unlocks c.L and suspends; relocks before returning.
func (c *Cond) Wait() {
	s, t := sched.Point("Cond.Wait")
	c.fresh()
	if s == nil {
		panic("ssync: Cond.Wait outside a controlled execution")
	}
	if t == nil {
		return
	}
	w := &condWaiter{}
	c.waiters = append(c.waiters, w)
	c.L.Unlock()
	for !w.woken {
		s.Block(t, "Cond.Wait", func() bool { return w.woken })
	}
	c.L.Lock()
}

// Signal wakes one waiter (FIFO, as the runtime's notify list).
func (c *Cond) Signal() {
	s, t := sched.Point("Cond.Signal")
	c.fresh()
	if s != nil && t == nil {
		return
	}
	if len(c.waiters) > 0 {
		c.waiters[0].woken = true
		c.waiters = c.waiters[1:]
	}
}

// Broadcast wakes all waiters.
func (c *Cond) Broadcast() {
	s, t := sched.Point("Cond.Broadcast")
	c.fresh()
	if s != nil && t == nil {
		return
	}
	for _, w := range c.waiters {
		w.woken = true
	}
	c.waiters = nil
}
