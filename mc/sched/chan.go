package sched

import (
	"unsafe"
)

// Channels: the instrumented code keeps its `chan T` values (they are only
// used as identities and for cap()), every operation on them is replaced by a
// call into this file, which implements Go's channel semantics (rendezvous of
// unbuffered channels, buffers, close, nil channels, select with and without
// default, FIFO wait queues) in a side table owned by the scheduler. The real
// channel is never sent to or received from.

type chanState struct {
	cap    int
	buf    []any
	closed bool
	recvq  []*waiter
	sendq  []*waiter
}

type selState struct {
	t       *Thread
	done    bool
	idx     int
	ws      []*waiter
	panicCl bool // woken by close while sending
}

type waiter struct {
	sel *selState
	cs  *chanState
	idx int
	val any
	ok  bool
}

type selCase struct {
	key  unsafe.Pointer
	cap  int
	send bool
	val  any
	ok   bool
}

func (s *Sched) chanOf(c *selCase) *chanState {
	if c.key == nil {
		return nil
	}
	cs := s.chans[c.key]
	if cs == nil {
		cs = &chanState{cap: c.cap}
		s.chans[c.key] = cs
	}
	return cs
}

// free-mode channel table (no scheduler): operations must not block
var freeChans = map[unsafe.Pointer]*chanState{}

func chanKey[T any](ch chan T) unsafe.Pointer {
	return *(*unsafe.Pointer)(unsafe.Pointer(&ch))
}

func (w *waiter) complete(s *Sched) {
	sel := w.sel
	sel.done = true
	sel.idx = w.idx
	for _, o := range sel.ws {
		if o == w {
			continue
		}
		o.cs.remove(o)
	}
}

func (cs *chanState) remove(w *waiter) {
	for i, x := range cs.recvq {
		if x == w {
			cs.recvq = append(cs.recvq[:i], cs.recvq[i+1:]...)
			return
		}
	}
	for i, x := range cs.sendq {
		if x == w {
			cs.sendq = append(cs.sendq[:i], cs.sendq[i+1:]...)
			return
		}
	}
}

func (cs *chanState) canRecv() bool { return len(cs.buf) > 0 || len(cs.sendq) > 0 || cs.closed }
func (cs *chanState) canSend() bool {
	return cs.closed || len(cs.recvq) > 0 || len(cs.buf) < cs.cap
}

// doRecv performs a ready receive.
func (s *Sched) doRecv(cs *chanState) (any, bool) {
	if len(cs.buf) > 0 {
		v := cs.buf[0]
		cs.buf = cs.buf[1:]
		if len(cs.sendq) > 0 {
			w := cs.sendq[0]
			cs.sendq = cs.sendq[1:]
			cs.buf = append(cs.buf, w.val)
			w.complete(s)
		}
		return v, true
	}
	if len(cs.sendq) > 0 {
		w := cs.sendq[0]
		cs.sendq = cs.sendq[1:]
		w.complete(s)
		return w.val, true
	}
	return nil, false // closed
}

// doSend performs a ready send; reports false when the channel is closed.
func (s *Sched) doSend(cs *chanState, v any) bool {
	if cs.closed {
		return false
	}
	if len(cs.recvq) > 0 {
		w := cs.recvq[0]
		cs.recvq = cs.recvq[1:]
		w.val, w.ok = v, true
		w.complete(s)
		return true
	}
	cs.buf = append(cs.buf, v)
	return true
}

// selectOp is the common implementation of send, receive and select.
// It returns the index of the case that fired, or -1 for default.
func selectOp(op string, cases []*selCase, hasDefault bool) int {
	s, t := Point(op)
	if s == nil {
		return freeSelect(op, cases, hasDefault)
	}
	if t == nil { // teardown
		return -1
	}
	var readyBuf [4]int
	ready := readyBuf[:0]
	for i, c := range cases {
		cs := s.chanOf(c)
		if cs == nil {
			continue
		}
		if (c.send && cs.canSend()) || (!c.send && cs.canRecv()) {
			ready = append(ready, i)
		}
	}
	if len(ready) > 0 {
		k := 0
		if len(ready) > 1 {
			// Go picks uniformly among ready cases: a choice of its own
			k = s.choose(len(ready), op+"/ready-case")
			if s.cfg.Record {
				s.logf("T%d %-12s %s: %d cases ready, case %d taken", t.ID, t.Name, op, len(ready), ready[k])
			}
		}
		i := ready[k]
		c := cases[i]
		cs := s.chanOf(c)
		if c.send {
			if !s.doSend(cs, c.val) {
				panic("send on closed channel")
			}
		} else {
			c.val, c.ok = s.doRecv(cs)
		}
		return i
	}
	if hasDefault {
		return -1
	}
	// block: enqueue on every channel
	sel := &selState{t: t}
	for i, c := range cases {
		cs := s.chanOf(c)
		if cs == nil {
			continue
		}
		w := &waiter{sel: sel, cs: cs, idx: i, val: c.val}
		sel.ws = append(sel.ws, w)
		if c.send {
			cs.sendq = append(cs.sendq, w)
		} else {
			cs.recvq = append(cs.recvq, w)
		}
	}
	for !sel.done {
		s.Block(t, op, func() bool { return sel.done })
	}
	if sel.panicCl {
		panic("send on closed channel")
	}
	for _, w := range sel.ws {
		if w.idx == sel.idx {
			c := cases[sel.idx]
			if !c.send {
				c.val, c.ok = w.val, w.ok
			}
		}
	}
	return sel.idx
}

func freeSelect(op string, cases []*selCase, hasDefault bool) int {
	for i, c := range cases {
		if c.key == nil {
			continue
		}
		cs := freeChans[c.key]
		if cs == nil {
			cs = &chanState{cap: c.cap}
			freeChans[c.key] = cs
		}
		if c.send && (cs.closed || len(cs.buf) < cs.cap) {
			if cs.closed {
				panic("send on closed channel")
			}
			cs.buf = append(cs.buf, c.val)
			return i
		}
		if !c.send && (len(cs.buf) > 0 || cs.closed) {
			if len(cs.buf) > 0 {
				c.val, c.ok = cs.buf[0], true
				cs.buf = cs.buf[1:]
			}
			return i
		}
	}
	if hasDefault {
		return -1
	}
	panic("sched: " + op + " would block outside a controlled execution")
}

func unbox[T any](v any) T {
	if v == nil {
		var z T
		return z
	}
	return v.(T)
}

// ChanSend is `ch <- v`.
func ChanSend[T any](ch chan<- T, v T) {
	c := selCase{key: *(*unsafe.Pointer)(unsafe.Pointer(&ch)), cap: cap(ch), send: true, val: v}
	cases := [1]*selCase{&c}
	selectOp("chan send", cases[:], false)
}

// ChanRecv is `<-ch`.
func ChanRecv[T any](ch <-chan T) T {
	c := selCase{key: *(*unsafe.Pointer)(unsafe.Pointer(&ch)), cap: cap(ch)}
	cases := [1]*selCase{&c}
	selectOp("chan recv", cases[:], false)
	return unbox[T](c.val)
}

// ChanRecv2 is `v, ok := <-ch`.
func ChanRecv2[T any](ch <-chan T) (T, bool) {
	c := selCase{key: *(*unsafe.Pointer)(unsafe.Pointer(&ch)), cap: cap(ch)}
	cases := [1]*selCase{&c}
	selectOp("chan recv", cases[:], false)
	return unbox[T](c.val), c.ok
}

// ChanClose is `close(ch)`.
func ChanClose[T any](ch chan<- T) {
	key := *(*unsafe.Pointer)(unsafe.Pointer(&ch))
	if key == nil {
		panic("close of nil channel")
	}
	s, t := Point("chan close")
	var cs *chanState
	if s == nil {
		cs = freeChans[key]
		if cs == nil {
			cs = &chanState{cap: cap(ch)}
			freeChans[key] = cs
		}
	} else {
		if t == nil {
			return
		}
		cs = s.chanOf(&selCase{key: key, cap: cap(ch)})
	}
	if cs.closed {
		panic("close of closed channel")
	}
	cs.closed = true
	for _, w := range cs.recvq {
		w.val, w.ok = nil, false
		w.complete(s)
	}
	cs.recvq = nil
	for _, w := range cs.sendq {
		w.sel.panicCl = true
		w.complete(s)
	}
	cs.sendq = nil
}

// ChanLen is `len(ch)`.
func ChanLen[T any](ch chan T) int {
	key := chanKey(ch)
	if key == nil {
		return 0
	}
	s, t := Point("chan len")
	if s == nil {
		if cs := freeChans[key]; cs != nil {
			return len(cs.buf)
		}
		return 0
	}
	if t == nil {
		return 0
	}
	return len(s.chanOf(&selCase{key: key, cap: cap(ch)}).buf)
}

// SelCase is one case of a rewritten select statement.
type SelCase interface{ sc() *selCase }

// RecvCase is `case v, ok := <-ch`.
type RecvCase[T any] struct {
	c  selCase
	V  T
	OK bool
}

func (r *RecvCase[T]) sc() *selCase { return &r.c }

// SendCase is `case ch <- v`.
type SendCase[T any] struct{ c selCase }

func (r *SendCase[T]) sc() *selCase { return &r.c }

// CaseRecv builds a receive case.
func CaseRecv[T any](ch <-chan T) *RecvCase[T] {
	return &RecvCase[T]{c: selCase{key: *(*unsafe.Pointer)(unsafe.Pointer(&ch)), cap: cap(ch)}}
}

// CaseSend builds a send case.
func CaseSend[T any](ch chan<- T, v T) *SendCase[T] {
	return &SendCase[T]{c: selCase{key: *(*unsafe.Pointer)(unsafe.Pointer(&ch)), cap: cap(ch), send: true, val: v}}
}

// Done copies the received value into V/OK; called by the rewritten code for
// the case that fired.
func (r *RecvCase[T]) Done() *RecvCase[T] {
	r.V, r.OK = unbox[T](r.c.val), r.c.ok
	return r
}

// Select is a rewritten select statement: index of the fired case, -1 = default.
func Select(hasDefault bool, cases ...SelCase) int {
	var buf [4]*selCase
	cs := buf[:0]
	for _, c := range cases {
		cs = append(cs, c.sc())
	}
	if len(cs) == 0 && !hasDefault {
		// select {} blocks forever
		s, t := Point("select{}")
		if s == nil {
			panic("sched: select{} outside a controlled execution")
		}
		if t == nil {
			return -1
		}
		for {
			s.Block(t, "select{}", func() bool { return false })
		}
	}
	return selectOp("select", cs, hasDefault)
}

// ChanSender is the curried form of ChanSend used by the rewriter: the element
// type is inferred from the channel alone, so the value is converted to it by
// ordinary assignability (untyped constants, interface satisfaction).
func ChanSender[T any](ch chan<- T) func(T) {
	return func(v T) { ChanSend(ch, v) }
}

// CaseSender is the curried form of CaseSend.
func CaseSender[T any](ch chan<- T) func(T) *SendCase[T] {
	return func(v T) *SendCase[T] { return CaseSend(ch, v) }
}
