package sched_test

import (
	"fmt"
	"testing"

	"verif/mc/explore"
	"verif/mc/sched"
	ssync "verif/mc/sched/ssync"
)

func run(bound int, body func() func()) (explore.Stats, []*explore.Found) {
	ex := &explore.Explorer{Bound: bound, Workers: 1}
	return ex.Explore(func(x *explore.Exec) *explore.Violation {
		m := body()
		r := sched.Run(x, sched.Config{Horizon: 10000}, m)
		x.Steps = r.Steps
		if r.Kind != "ok" {
			return explore.Viol(r.Kind, "%s", r.Msg)
		}
		return nil
	})
}

// lost wake-up: notifier does a non-blocking send on an unbuffered channel
func lostWakeup(capacity int) func() func() {
	return func() func() {
		return func() {
			sig := make(chan bool, capacity)
			var mu ssync.Mutex
			n := 1
			sched.Go("worker", func() {
				mu.Lock()
				n = 0
				mu.Unlock()
				switch sched.Select(true, sched.CaseSend(sig, true)) {
				}
			})
			for {
				mu.Lock()
				v := n
				mu.Unlock()
				if v == 0 {
					return
				}
				sched.ChanRecv(sig)
			}
		}
	}
}

func TestLostWakeup(t *testing.T) {
	st, f := run(2, lostWakeup(0))
	fmt.Println("unbuffered:", st.Executions, "execs", len(f), "found")
	if len(f) != 1 || f[0].Sig != "deadlock" {
		t.Fatalf("expected deadlock, got %v", f)
	}
	fmt.Println(f[0].Msg, f[0].Choices, f[0].Tags)
	st, f = run(3, lostWakeup(1))
	fmt.Println("buffered:", st.Executions, "execs", len(f), "found")
	if len(f) != 0 {
		t.Fatalf("unexpected %v", f[0])
	}
}

func TestCounter(t *testing.T) {
	outcomes := map[int]bool{}
	ex := &explore.Explorer{Bound: 2, Workers: 1}
	st, f := ex.Explore(func(x *explore.Exec) *explore.Violation {
		c := 0
		var wg ssync.WaitGroup
		r := sched.Run(x, sched.Config{}, func() {
			for i := 0; i < 2; i++ {
				wg.Add(1)
				sched.GoApp("inc", func() {
					defer wg.Done()
					var mu ssync.Mutex
					mu.Lock() // scheduling point
					v := c
					mu.Unlock()
					mu.Lock() // scheduling point
					c = v + 1
					mu.Unlock()
				})
			}
			wg.Wait()
		})
		if r.Kind != "ok" {
			return explore.Viol(r.Kind, "%s", r.Msg)
		}
		outcomes[c] = true
		return nil
	})
	fmt.Println("counter:", st.Executions, "execs; outcomes", outcomes, f)
	if !outcomes[1] || !outcomes[2] {
		t.Fatalf("expected both 1 and 2: %v", outcomes)
	}
}

func TestRendezvousAndClose(t *testing.T) {
	st, f := run(2, func() func() {
		return func() {
			ch := make(chan int)
			done := make(chan struct{})
			sched.Go("producer", func() {
				for i := 0; i < 3; i++ {
					sched.ChanSend(ch, i)
				}
				sched.ChanClose(ch)
			})
			sched.Go("consumer", func() {
				sum := 0
				for {
					v, ok := sched.ChanRecv2(ch)
					if !ok {
						break
					}
					sum += v
				}
				if sum != 3 {
					panic("bad sum")
				}
				sched.ChanClose(done)
			})
			sched.ChanRecv(done)
		}
	})
	fmt.Println("rendezvous:", st.Executions, "execs", f)
	if len(f) != 0 {
		t.Fatalf("unexpected %v", f[0])
	}
}

func TestABBA(t *testing.T) {
	_, f := run(1, func() func() {
		return func() {
			var a, b ssync.Mutex
			var wg ssync.WaitGroup
			wg.Add(1)
			sched.Go("t1", func() {
				a.Lock()
				b.Lock()
				b.Unlock()
				a.Unlock()
				wg.Done()
			})
			b.Lock()
			a.Lock()
			a.Unlock()
			b.Unlock()
			wg.Wait()
		}
	})
	if len(f) != 1 || f[0].Sig != "deadlock" {
		t.Fatalf("expected ABBA deadlock, got %v", f)
	}
	fmt.Println(f[0].Msg)
}
