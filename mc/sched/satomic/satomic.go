// Package atomic is the scheduler-controlled replacement of "sync/atomic" in
// instrumented code: every operation is a scheduling point followed by a plain
// access (exactly one managed goroutine runs at a time; hand-offs go through
// real channels, so the plain accesses are ordered).
package atomic

import (
	"unsafe"

	"verif/mc/sched"
)

func pt(op string) { sched.Point(op) }

func AddInt32(p *int32, d int32) int32     { pt("atomic.AddInt32"); *p += d; return *p }
func AddInt64(p *int64, d int64) int64     { pt("atomic.AddInt64"); *p += d; return *p }
func AddUint32(p *uint32, d uint32) uint32 { pt("atomic.AddUint32"); *p += d; return *p }
func AddUint64(p *uint64, d uint64) uint64 { pt("atomic.AddUint64"); *p += d; return *p }
func AddUintptr(p *uintptr, d uintptr) uintptr {
	pt("atomic.AddUintptr")
	*p += d
	return *p
}

func LoadInt32(p *int32) int32       { pt("atomic.LoadInt32"); return *p }
func LoadInt64(p *int64) int64       { pt("atomic.LoadInt64"); return *p }
func LoadUint32(p *uint32) uint32    { pt("atomic.LoadUint32"); return *p }
func LoadUint64(p *uint64) uint64    { pt("atomic.LoadUint64"); return *p }
func LoadUintptr(p *uintptr) uintptr { pt("atomic.LoadUintptr"); return *p }
func LoadPointer(p *unsafe.Pointer) unsafe.Pointer {
	pt("atomic.LoadPointer")
	return *p
}

func StoreInt32(p *int32, v int32)       { pt("atomic.StoreInt32"); *p = v }
func StoreInt64(p *int64, v int64)       { pt("atomic.StoreInt64"); *p = v }
func StoreUint32(p *uint32, v uint32)    { pt("atomic.StoreUint32"); *p = v }
func StoreUint64(p *uint64, v uint64)    { pt("atomic.StoreUint64"); *p = v }
func StoreUintptr(p *uintptr, v uintptr) { pt("atomic.StoreUintptr"); *p = v }
func StorePointer(p *unsafe.Pointer, v unsafe.Pointer) {
	pt("atomic.StorePointer")
	*p = v
}

func SwapInt32(p *int32, v int32) int32     { pt("atomic.SwapInt32"); o := *p; *p = v; return o }
func SwapInt64(p *int64, v int64) int64     { pt("atomic.SwapInt64"); o := *p; *p = v; return o }
func SwapUint32(p *uint32, v uint32) uint32 { pt("atomic.SwapUint32"); o := *p; *p = v; return o }
func SwapUint64(p *uint64, v uint64) uint64 { pt("atomic.SwapUint64"); o := *p; *p = v; return o }

func CompareAndSwapInt32(p *int32, o, n int32) bool {
	pt("atomic.CompareAndSwapInt32")
	if *p == o {
		*p = n
		return true
	}
	return false
}
func CompareAndSwapInt64(p *int64, o, n int64) bool {
	pt("atomic.CompareAndSwapInt64")
	if *p == o {
		*p = n
		return true
	}
	return false
}
func CompareAndSwapUint32(p *uint32, o, n uint32) bool {
	pt("atomic.CompareAndSwapUint32")
	if *p == o {
		*p = n
		return true
	}
	return false
}
func CompareAndSwapUint64(p *uint64, o, n uint64) bool {
	pt("atomic.CompareAndSwapUint64")
	if *p == o {
		*p = n
		return true
	}
	return false
}
func CompareAndSwapPointer(p *unsafe.Pointer, o, n unsafe.Pointer) bool {
	pt("atomic.CompareAndSwapPointer")
	if *p == o {
		*p = n
		return true
	}
	return false
}

// Int32 is atomic.Int32.
type Int32 struct{ v int32 }

func (x *Int32) Load() int32                    { return LoadInt32(&x.v) }
func (x *Int32) Store(v int32)                  { StoreInt32(&x.v, v) }
func (x *Int32) Add(d int32) int32              { return AddInt32(&x.v, d) }
func (x *Int32) Swap(v int32) int32             { return SwapInt32(&x.v, v) }
func (x *Int32) CompareAndSwap(o, n int32) bool { return CompareAndSwapInt32(&x.v, o, n) }

// Int64 is atomic.Int64.
type Int64 struct{ v int64 }

func (x *Int64) Load() int64                    { return LoadInt64(&x.v) }
func (x *Int64) Store(v int64)                  { StoreInt64(&x.v, v) }
func (x *Int64) Add(d int64) int64              { return AddInt64(&x.v, d) }
func (x *Int64) Swap(v int64) int64             { return SwapInt64(&x.v, v) }
func (x *Int64) CompareAndSwap(o, n int64) bool { return CompareAndSwapInt64(&x.v, o, n) }

// Uint32 is atomic.Uint32.
type Uint32 struct{ v uint32 }

func (x *Uint32) Load() uint32                    { return LoadUint32(&x.v) }
func (x *Uint32) Store(v uint32)                  { StoreUint32(&x.v, v) }
func (x *Uint32) Add(d uint32) uint32             { return AddUint32(&x.v, d) }
func (x *Uint32) Swap(v uint32) uint32            { return SwapUint32(&x.v, v) }
func (x *Uint32) CompareAndSwap(o, n uint32) bool { return CompareAndSwapUint32(&x.v, o, n) }

// Uint64 is atomic.Uint64.
type Uint64 struct{ v uint64 }

func (x *Uint64) Load() uint64                    { return LoadUint64(&x.v) }
func (x *Uint64) Store(v uint64)                  { StoreUint64(&x.v, v) }
func (x *Uint64) Add(d uint64) uint64             { return AddUint64(&x.v, d) }
func (x *Uint64) Swap(v uint64) uint64            { return SwapUint64(&x.v, v) }
func (x *Uint64) CompareAndSwap(o, n uint64) bool { return CompareAndSwapUint64(&x.v, o, n) }

// Bool is atomic.Bool.
type Bool struct{ v bool }

func (x *Bool) Load() bool       { pt("atomic.Bool.Load"); return x.v }
func (x *Bool) Store(v bool)     { pt("atomic.Bool.Store"); x.v = v }
func (x *Bool) Swap(v bool) bool { pt("atomic.Bool.Swap"); o := x.v; x.v = v; return o }
func (x *Bool) CompareAndSwap(o, n bool) bool {
	pt("atomic.Bool.CompareAndSwap")
	if x.v == o {
		x.v = n
		return true
	}
	return false
}

// Value is atomic.Value.
type Value struct{ v any }

func (x *Value) Load() any      { pt("atomic.Value.Load"); return x.v }
func (x *Value) Store(v any)    { pt("atomic.Value.Store"); x.v = v }
func (x *Value) Swap(v any) any { pt("atomic.Value.Swap"); o := x.v; x.v = v; return o }
func (x *Value) CompareAndSwap(o, n any) bool {
	pt("atomic.Value.CompareAndSwap")
	if x.v == o {
		x.v = n
		return true
	}
	return false
}

// Pointer is atomic.Pointer[T].
type Pointer[T any] struct{ p *T }

func (x *Pointer[T]) Load() *T     { pt("atomic.Pointer.Load"); return x.p }
func (x *Pointer[T]) Store(v *T)   { pt("atomic.Pointer.Store"); x.p = v }
func (x *Pointer[T]) Swap(v *T) *T { pt("atomic.Pointer.Swap"); o := x.p; x.p = v; return o }
func (x *Pointer[T]) CompareAndSwap(o, n *T) bool {
	pt("atomic.Pointer.CompareAndSwap")
	if x.p == o {
		x.p = n
		return true
	}
	return false
}
