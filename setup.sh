#!/bin/bash
# Builds every check once (warms the Go build cache); offline.
set -u
cd "$(dirname "$0")"
export GOFLAGS=-mod=mod GOPROXY=off
mkdir -p bin evidence build/tmp
rc=0
for d in mc/checks/*/; do
  id=$(basename "$d")
  ( cd mc && go build -tags verif -o "../bin/$id" "./checks/$id" ) || rc=2
done
exit $rc
