#!/bin/bash
# Builds every check claimed in MANIFEST.json once (warms the Go build cache); offline.
set -u
cd "$(dirname "$0")"
export GOFLAGS=-mod=mod GOPROXY=off
mkdir -p bin evidence build/tmp
rc=0
for ID in $(python3 -c "import json;print(' '.join(c['property_id'] for c in json.load(open('MANIFEST.json'))['checks']))"); do
  id=$(echo "$ID" | tr 'A-Z' 'a-z')
  if [ -x "mc/checks/$id/build.sh" ]; then
    "mc/checks/$id/build.sh" /repo "$(pwd)/bin/$id" || rc=2
  else
    ( cd mc && go build -tags verif -o "../bin/$id" "./checks/$id" ) || rc=2
  fi
done
exit $rc
