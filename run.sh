#!/bin/bash
# run.sh <id> <quick|thorough> | run.sh <id> --replay <file>
# Rebuilds the check from /repo's current working tree (hooks on, build tag
# verif) and runs it. VERIF_REPO=<dir> (development only) builds against a
# scratch worktree instead of /repo, so that deliberate breakages never touch /repo.
set -u
cd "$(dirname "$0")"
ROOT=$(pwd)
ID=$1; shift
id=$(echo "$ID" | tr 'A-Z' 'a-z')
export GOFLAGS=-mod=mod GOPROXY=off
REPO=${VERIF_REPO:-/repo}
mkdir -p "$ROOT/bin" "$ROOT/evidence" "$ROOT/build/tmp"
MODFLAG=""
BIN="$ROOT/bin/$id"
if [ "$REPO" != "/repo" ]; then
  tag=$(echo "$REPO" | md5sum | cut -c1-8)
  mkdir -p "$ROOT/build/mod-$tag"
  sed "s#=> /repo#=> $REPO#" "$ROOT/mc/go.mod" > "$ROOT/build/mod-$tag/go.mod"
  cp "$ROOT/mc/go.sum" "$ROOT/build/mod-$tag/go.sum"
  MODFLAG="-modfile=$ROOT/build/mod-$tag/go.mod"
  BIN="$ROOT/build/mod-$tag/$id"
fi
export VERIF_REPO_DIR="$REPO"
# evidence, replays and known findings live next to this script unless redirected (development only)
export VERIF_DIR="${VERIF_DIR:-$ROOT}"
if [ -x "$ROOT/mc/checks/$id/build.sh" ]; then
  # checks that need a special build (source instrumentation, overlays) provide their own builder:
  # build.sh <repo-dir> <output-binary>; must rebuild from <repo-dir>'s current working tree.
  "$ROOT/mc/checks/$id/build.sh" "$REPO" "$BIN"
else
  ( cd "$ROOT/mc" && go build $MODFLAG -tags verif -o "$BIN" "./checks/$id" )
fi || { echo "INFRASTRUCTURE ERROR: build of check $ID failed (does $REPO compile?)"; exit 2; }
# auxiliary binaries of the check ("parts": <suffix> <package> per line), built the same way
if [ -f "$ROOT/mc/checks/$id/parts.txt" ]; then
  while read -r suffix pkg; do
    [ -n "$suffix" ] || continue
    ( cd "$ROOT/mc" && go build $MODFLAG -tags verif -o "$BIN-$suffix" "$pkg" ) || { echo "INFRASTRUCTURE ERROR: build of part $suffix of check $ID failed"; exit 2; }
  done < "$ROOT/mc/checks/$id/parts.txt"
fi
if [ "${1:-}" = "--replay" ]; then
  exec "$BIN" -replay "$2"
fi
exec "$BIN" -tier "${1:-quick}"
